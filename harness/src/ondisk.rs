//! Independent readers of the documented on-disk formats. Shares no code with the crate.
//!
//! index   : [u64 ver][u32 n]{[u32 klen][key][32B hash][u64 size]}*        (little endian)
//! segment : {[u64 ver][32B blake3(payload)][u32 len][payload]}* [44 zero bytes]?   name `<id>_index.wal`
//! op      : tag 0 = Put [u32 klen][key][32B hash][u64 size]; tag 1 = Remove [u32 n]{[u32 klen][key]}*
//! blob    : cas/hh/hh/<60 lower-case hex>;  version v lives in segment (v-1)/N.

use crate::util::{Image, b3, hex};
use std::collections::BTreeMap;

pub const HDR: usize = 44;

pub fn path_of_hash(h: &[u8; 32]) -> String {
    let x = hex(h);
    format!("{}/{}/{}", &x[0..2], &x[2..4], &x[4..])
}

/// Parse a canonical blob path (relative to cas/): exactly 2/2/60 lower-case hex.
pub fn hash_of_path(rel: &str) -> Option<[u8; 32]> {
    let parts: Vec<&str> = rel.split('/').collect();
    if parts.len() != 3 || parts[0].len() != 2 || parts[1].len() != 2 || parts[2].len() != 60 {
        return None;
    }
    let s: String = parts.concat();
    let mut out = [0u8; 32];
    let b = s.as_bytes();
    for i in 0..32 {
        let d = |c: u8| match c {
            b'0'..=b'9' => Some(c - b'0'),
            b'a'..=b'f' => Some(c - b'a' + 10),
            _ => None,
        };
        out[i] = d(b[2 * i])? << 4 | d(b[2 * i + 1])?;
    }
    Some(out)
}

struct Cur<'a> {
    b: &'a [u8],
    pos: usize,
}

impl<'a> Cur<'a> {
    fn take(&mut self, n: usize, what: &str) -> Result<&'a [u8], String> {
        if self.b.len() - self.pos < n {
            return Err(format!("short read of {what} at offset {} (need {n}, have {})", self.pos, self.b.len() - self.pos));
        }
        let s = &self.b[self.pos..self.pos + n];
        self.pos += n;
        Ok(s)
    }
    fn u32(&mut self, what: &str) -> Result<u32, String> {
        Ok(u32::from_le_bytes(self.take(4, what)?.try_into().unwrap()))
    }
    fn u64(&mut self, what: &str) -> Result<u64, String> {
        Ok(u64::from_le_bytes(self.take(8, what)?.try_into().unwrap()))
    }
    fn done(&self) -> bool {
        self.pos == self.b.len()
    }
}

#[derive(Clone, Debug, PartialEq, Eq)]
pub struct IndexFile {
    pub version: u64,
    /// key bytes -> (hash, size), in file order
    pub entries: Vec<(Vec<u8>, [u8; 32], u64)>,
}

pub fn parse_index(bytes: &[u8]) -> Result<IndexFile, String> {
    let mut c = Cur { b: bytes, pos: 0 };
    let version = c.u64("index version")?;
    let n = c.u32("index entry count")?;
    let mut entries = Vec::new();
    for i in 0..n {
        let klen = c.u32("key length")? as usize;
        let key = c.take(klen, "key")?.to_vec();
        let hash: [u8; 32] = c.take(32, "hash")?.try_into().unwrap();
        let size = c.u64("size")?;
        let _ = i;
        entries.push((key, hash, size));
    }
    if !c.done() {
        return Err(format!("{} trailing bytes after {} index entries", bytes.len() - c.pos, n));
    }
    Ok(IndexFile { version, entries })
}

#[derive(Clone, Debug, PartialEq, Eq)]
pub enum DOp {
    Put { key: Vec<u8>, hash: [u8; 32], size: u64 },
    Remove { keys: Vec<Vec<u8>> },
}

pub fn decode_op(payload: &[u8]) -> Result<DOp, String> {
    let mut c = Cur { b: payload, pos: 0 };
    let tag = c.take(1, "tag")?[0];
    let op = match tag {
        0 => {
            let klen = c.u32("put key length")? as usize;
            let key = c.take(klen, "put key")?.to_vec();
            let hash: [u8; 32] = c.take(32, "put hash")?.try_into().unwrap();
            let size = c.u64("put size")?;
            DOp::Put { key, hash, size }
        }
        1 => {
            let n = c.u32("remove count")?;
            let mut keys = Vec::new();
            for _ in 0..n {
                let klen = c.u32("remove key length")? as usize;
                keys.push(c.take(klen, "remove key")?.to_vec());
            }
            DOp::Remove { keys }
        }
        t => return Err(format!("unknown op tag {t}")),
    };
    if !c.done() {
        return Err("trailing bytes in op payload".into());
    }
    Ok(op)
}

#[derive(Clone, Debug, PartialEq, Eq)]
pub struct Rec {
    pub version: u64,
    pub offset: usize,
    pub payload: Vec<u8>,
}

#[derive(Clone, Debug, PartialEq, Eq)]
pub struct Segment {
    pub id: u64,
    pub records: Vec<Rec>,
    pub sentinel: bool,
    pub len: usize,
}

/// Strict parse: only complete records with valid checksums, optionally one trailing sentinel.
pub fn parse_segment(id: u64, bytes: &[u8]) -> Result<Segment, String> {
    let mut pos = 0usize;
    let mut records = Vec::new();
    let mut sentinel = false;
    while pos < bytes.len() {
        if bytes.len() - pos < HDR {
            return Err(format!("segment {id}: {} stray bytes at offset {pos} (incomplete header)", bytes.len() - pos));
        }
        let h = &bytes[pos..pos + HDR];
        if h.iter().all(|&b| b == 0) {
            if pos + HDR != bytes.len() {
                return Err(format!("segment {id}: {} bytes after end marker at offset {pos}", bytes.len() - pos - HDR));
            }
            sentinel = true;
            break;
        }
        let version = u64::from_le_bytes(h[0..8].try_into().unwrap());
        let sum: [u8; 32] = h[8..40].try_into().unwrap();
        let len = u32::from_le_bytes(h[40..44].try_into().unwrap()) as usize;
        if version == 0 {
            return Err(format!("segment {id}: record with version 0 that is not an end marker at offset {pos}"));
        }
        if len == 0 {
            return Err(format!("segment {id}: zero-length record v{version} at offset {pos}"));
        }
        if bytes.len() - pos - HDR < len {
            return Err(format!(
                "segment {id}: incomplete record v{version} at offset {pos}: payload {} of {len} bytes",
                bytes.len() - pos - HDR
            ));
        }
        let payload = &bytes[pos + HDR..pos + HDR + len];
        if b3(payload) != sum {
            return Err(format!("segment {id}: checksum mismatch in record v{version} at offset {pos}"));
        }
        records.push(Rec { version, offset: pos, payload: payload.to_vec() });
        pos += HDR + len;
    }
    Ok(Segment { id, records, sentinel, len: bytes.len() })
}

/// `<digits>_index.wal` -> id
pub fn segment_id(name: &str) -> Option<u64> {
    let rest = name.strip_suffix("_index.wal")?;
    if rest.is_empty() || !rest.bytes().all(|b| b.is_ascii_digit()) {
        return None;
    }
    rest.parse().ok()
}

#[derive(Clone, Debug)]
pub struct Disk {
    pub index: Option<IndexFile>,
    pub segments: Vec<Segment>,
}

/// Decode the log + snapshot of an image and check the C20 well-formedness rules.
pub fn decode_disk(im: &Image, n: u64) -> Result<Disk, String> {
    let index = match im.files.get("index") {
        Some(b) => Some(parse_index(b).map_err(|e| format!("index: {e}"))?),
        None => None,
    };
    let mut segments = Vec::new();
    for (name, bytes) in &im.files {
        if name.contains('/') {
            continue;
        }
        if let Some(id) = segment_id(name) {
            segments.push(parse_segment(id, bytes)?);
        }
    }
    segments.sort_by_key(|s| s.id);
    let mut last = 0u64;
    for s in &segments {
        for r in &s.records {
            if r.version <= last {
                return Err(format!("segment {}: version {} not above previous {}", s.id, r.version, last));
            }
            last = r.version;
            let lo = s.id.checked_mul(n).ok_or("segment id overflow")?;
            if !(r.version > lo && r.version <= lo + n) {
                return Err(format!("segment {}: version {} outside ({}, {}]", s.id, r.version, lo, lo + n));
            }
            decode_op(&r.payload).map_err(|e| format!("segment {} v{}: {e}", s.id, r.version))?;
        }
    }
    Ok(Disk { index, segments })
}

impl Disk {
    pub fn snapshot_version(&self) -> u64 {
        self.index.as_ref().map_or(0, |i| i.version)
    }
    pub fn records(&self) -> impl Iterator<Item = &Rec> {
        self.segments.iter().flat_map(|s| s.records.iter())
    }
    pub fn highest_version(&self) -> u64 {
        self.records().map(|r| r.version).max().unwrap_or(0).max(self.snapshot_version())
    }
    /// snapshot ⊕ records above its version, as key bytes -> (hash, size).
    /// Errors if the records above the snapshot are not contiguous from snapshot+1.
    pub fn replay(&self) -> Result<BTreeMap<Vec<u8>, ([u8; 32], u64)>, String> {
        let mut m: BTreeMap<Vec<u8>, ([u8; 32], u64)> = BTreeMap::new();
        if let Some(ix) = &self.index {
            for (k, h, s) in &ix.entries {
                if m.insert(k.clone(), (*h, *s)).is_some() {
                    return Err("duplicate key in index".into());
                }
            }
        }
        let mut expect = self.snapshot_version() + 1;
        for r in self.records() {
            if r.version < expect {
                continue;
            }
            if r.version != expect {
                return Err(format!("log gap: expected version {expect}, found {}", r.version));
            }
            expect += 1;
            match decode_op(&r.payload)? {
                DOp::Put { key, hash, size } => {
                    m.insert(key, (hash, size));
                }
                DOp::Remove { keys } => {
                    for k in keys {
                        m.remove(&k);
                    }
                }
            }
        }
        Ok(m)
    }
}

#[derive(Clone, Debug, Default, PartialEq, Eq)]
pub struct CasWalk {
    /// canonical blob files: hash -> bytes
    pub blobs: BTreeMap<[u8; 32], Vec<u8>>,
    /// every other regular file under cas/ (relative to cas/)
    pub strays: Vec<String>,
}

pub fn walk_cas(im: &Image) -> CasWalk {
    let mut w = CasWalk::default();
    for (rel, data) in im.files_under("cas") {
        match hash_of_path(&rel) {
            Some(h) => {
                w.blobs.insert(h, data.clone());
            }
            None => w.strays.push(rel),
        }
    }
    w
}

/// C06 on an image: every regular file under cas/ that has a canonical name holds the bytes its name encodes.
pub fn cas_integrity(im: &Image) -> Result<(), String> {
    for (h, data) in &walk_cas(im).blobs {
        if b3(data) != *h {
            return Err(format!("cas/{} holds {} bytes hashing to {}", path_of_hash(h), data.len(), &hex(&b3(data))[..12]));
        }
    }
    Ok(())
}
