//! Key universes (forced to collide), content table and chunkings.

use cassadilia::KeyBytes;
use std::fmt::Debug;
use std::hash::Hash;
use std::sync::OnceLock;

/// Index of the "big" key (9000-byte encoding ⇒ WAL record > 8 KiB), only for byte-string key types.
pub const BIG: u8 = 4;
/// Index of the "huge" key (70,000 bytes ⇒ WAL record > 64 KiB), only for String.
pub const HUGE: u8 = 5;

pub trait HKey: KeyBytes + Clone + Eq + Ord + Hash + Debug + Send + Sync + 'static {
    const NAME: &'static str;
    /// Key number `i` of the universe; `None` if this type has no such key.
    fn make(i: u8) -> Option<Self>;
    fn label(i: u8) -> String {
        match Self::make(i) {
            Some(k) => {
                let s = format!("{k:?}");
                if s.len() > 24 { format!("k{i}<{}B>", k.to_key_bytes().as_ref().len()) } else { s }
            }
            None => format!("k{i}?"),
        }
    }
}

impl HKey for String {
    const NAME: &'static str = "String";
    fn make(i: u8) -> Option<Self> {
        Some(match i {
            0 => "a".into(),
            1 => "b".into(),
            2 => String::new(),
            3 => "c".into(),
            4 => "k".repeat(9000),
            5 => "h".repeat(70_000),
            _ => return None,
        })
    }
}

impl HKey for Vec<u8> {
    const NAME: &'static str = "Vec<u8>";
    fn make(i: u8) -> Option<Self> {
        Some(match i {
            0 => vec![b'a'],
            1 => vec![b'b'],
            2 => vec![],
            3 => vec![0xff, 0x00],
            4 => vec![b'k'; 9000],
            _ => return None,
        })
    }
}

// numeric order differs from byte order of the little-endian encoding
impl HKey for u32 {
    const NAME: &'static str = "u32";
    fn make(i: u8) -> Option<Self> {
        Some(match i {
            0 => 256,
            1 => 1,
            2 => 0,
            3 => u32::MAX,
            _ => return None,
        })
    }
}

impl HKey for i16 {
    const NAME: &'static str = "i16";
    fn make(i: u8) -> Option<Self> {
        Some(match i {
            0 => -1,
            1 => 1,
            2 => 0,
            3 => i16::MIN,
            _ => return None,
        })
    }
}

impl HKey for [u8; 2] {
    const NAME: &'static str = "[u8;2]";
    fn make(i: u8) -> Option<Self> {
        Some(match i {
            0 => [0, 1],
            1 => [1, 0],
            2 => [0, 0],
            3 => [255, 255],
            _ => return None,
        })
    }
}

pub const C_X: u8 = 0;
pub const C_Y: u8 = 1;
pub const C_E: u8 = 2;
pub const C_L: u8 = 3;
pub const C_Z: u8 = 4;
/// 150 KiB: larger than any plausible "large write" threshold (64 KiB, 128 KiB)
pub const C_H: u8 = 5;
pub const H_LEN: usize = 150 * 1024 + 3;
/// 1.2 MiB: beyond a plausible "large staging file" threshold of 1 MiB
pub const C_M: u8 = 6;
pub const M_LEN: usize = 1200 * 1024 + 1;
pub const L_LEN: usize = 20 * 1024;

/// Content number `c`: X="xx", Y="yyy", E="", L=20 KiB pattern (> every 8 KiB buffer), Z="zz".
pub fn content(c: u8) -> &'static [u8] {
    static L: OnceLock<Vec<u8>> = OnceLock::new();
    match c {
        0 => b"xx",
        1 => b"yyy",
        2 => b"",
        3 => L.get_or_init(|| (0..L_LEN).map(|i| ((i * 31 + 7) % 251) as u8).collect()),
        4 => b"zz",
        5 => {
            static H: OnceLock<Vec<u8>> = OnceLock::new();
            H.get_or_init(|| (0..H_LEN).map(|i| ((i * 131 + 5) % 241) as u8).collect())
        }
        6 => {
            static M: OnceLock<Vec<u8>> = OnceLock::new();
            M.get_or_init(|| (0..M_LEN).map(|i| ((i * 7 + 3) % 239) as u8).collect())
        }
        _ => panic!("no content {c}"),
    }
}

pub fn content_name(c: u8) -> &'static str {
    ["X", "Y", "E", "L", "Z", "H", "M"][c as usize]
}

/// Split `data` into write calls. 0: one call (none for empty data); 1: fine-grained
/// (byte-wise for short data, straddling the 8 KiB buffer boundary for long data);
/// 2: empty writes before, between and after two halves; 3: small head, bulk, small tail.
pub fn chunks(data: &[u8], ch: u8) -> Vec<&[u8]> {
    match ch {
        0 => {
            if data.is_empty() { vec![] } else { vec![data] }
        }
        1 => {
            if data.len() <= 64 {
                if data.is_empty() { vec![data] } else { data.chunks(1).collect() }
            } else {
                let mut v = Vec::new();
                let mut rest = data;
                for cut in [8191usize, 1, 1, 4096] {
                    if rest.len() > cut {
                        let (a, b) = rest.split_at(cut);
                        v.push(a);
                        rest = b;
                    }
                }
                v.push(rest);
                v
            }
        }
        2 => {
            let (a, b) = data.split_at(data.len() / 2);
            vec![&data[..0], a, &data[..0], b, &data[..0]]
        }
        // 4: streamed in 4 KiB pieces
        4 => data.chunks(4096).collect(),
        // 3: a small head, the bulk in one call, a small tail (small-then-large and large-then-small)
        _ => {
            if data.len() < 8 {
                return data.chunks(1).collect();
            }
            let (h, rest) = data.split_at(3);
            let (bulk, t) = rest.split_at(rest.len() - 2);
            vec![h, bulk, t]
        }
    }
}
