//! Controlled scheduler: worker OS threads run real API calls, exactly one at a time; the controller
//! decides who runs at every scheduling point (before each index-lock acquisition — repo hook —, before
//! each *visible* filesystem call — shim —, and between API calls). Exploration is a deviation-bounded
//! (preemption-bounded) depth-first search over the choices.

use crate::shim::{self, Event, Phase};
use std::cell::Cell;
use std::sync::atomic::{AtomicU64, Ordering};
use std::sync::{Arc, Condvar, Mutex};
use std::time::Duration;

struct FreePtr(*const (dyn Fn() -> bool + 'static));
unsafe impl Send for FreePtr {}

#[derive(Clone, Copy, PartialEq, Eq, Debug)]
enum Turn {
    Controller,
    Worker(usize),
}

#[derive(Clone, Copy, PartialEq, Eq, Debug)]
enum Status {
    NotStarted,
    Parked,
    Running,
    Finished,
}

struct Th {
    status: Status,
    label: String,
    free: Option<FreePtr>,
}

struct St {
    turn: Turn,
    th: Vec<Th>,
}

pub struct Inner {
    m: Mutex<St>,
    cv: Condvar,
    pub clock: AtomicU64,
}

thread_local! {
    static WORKER: Cell<Option<usize>> = const { Cell::new(None) };
}
static ACTIVE: Mutex<Option<Arc<Inner>>> = Mutex::new(None);

/// (worker, call, mutating, return value, errno) of every call under the root made by workers (filled in the Post phase).
pub static EVENT_LOG: Mutex<Vec<(usize, String, bool, i64, i32)>> = Mutex::new(Vec::new());

fn active() -> Option<Arc<Inner>> {
    ACTIVE.lock().unwrap().clone()
}

/// Park the calling worker at a scheduling point until the controller grants it the turn.
fn yield_here(label: String, free: Option<FreePtr>) {
    let Some(id) = WORKER.with(|w| w.get()) else { return };
    let Some(inner) = active() else { return };
    let mut st = inner.m.lock().unwrap();
    st.th[id].status = Status::Parked;
    st.th[id].label = label;
    st.th[id].free = free;
    if st.turn == Turn::Worker(id) {
        st.turn = Turn::Controller;
    }
    inner.cv.notify_all();
    while st.turn != Turn::Worker(id) {
        st = inner.cv.wait(st).unwrap();
    }
    st.th[id].status = Status::Running;
    st.th[id].free = None;
}

/// Staging file names are random; labels must be identical across re-executions.
fn canon_label(s: &str) -> String {
    let mut out = String::new();
    let mut rest = s;
    while let Some(i) = rest.find("staging/") {
        out.push_str(&rest[..i + 8]);
        out.push('#');
        rest = &rest[i + 8..];
        let end = rest.find(|c: char| c == ' ' || c == ')' || c == ',').unwrap_or(rest.len());
        rest = &rest[end..];
    }
    out.push_str(rest);
    out
}

/// Scheduling point between API calls of one thread.
pub fn step_point(label: &str) {
    yield_here(label.to_string(), None);
}

pub fn tick() -> u64 {
    active().map_or(0, |i| i.clock.fetch_add(1, Ordering::SeqCst) + 1)
}

fn install_hooks(visible: fn(&Event<'_>) -> bool) {
    cassadilia::verif::install(Some(Arc::new(|p: &cassadilia::verif::Point<'_>| {
        if WORKER.with(|w| w.get()).is_none() {
            return;
        }
        // the closure lives on the caller's stack and the caller stays parked while the controller evaluates it
        let ptr: *const (dyn Fn() -> bool + '_) = p.is_free;
        let ptr: *const (dyn Fn() -> bool + 'static) = unsafe { std::mem::transmute(ptr) };
        yield_here(format!("{}:{:?}{}", p.label, p.lock, if p.exclusive { "" } else { "(shared)" }), Some(FreePtr(ptr)));
    })));
    let _ = visible;
}

/// The three kinds of visible filesystem calls of ordinary programs: anything at blob level under cas/,
/// and renames / links / unlinks that touch cas/.
pub fn visible_default(ev: &Event<'_>) -> bool {
    use crate::shim::Kind::*;
    let in_cas = |p: &str| p.starts_with("cas/");
    let blob_level = |p: &str| p.starts_with("cas/") && p.matches('/').count() >= 3;
    match ev.kind {
        Mkdir | Close | Flock | Fsync | Fdatasync | SyncRange => false,
        Rename | Link | Symlink => in_cas(&ev.rel) || ev.rel2.as_deref().map_or(false, in_cas),
        Unlink | Rmdir => in_cas(&ev.rel),
        _ => blob_level(&ev.rel),
    }
}

/// Default plus every call on staging/ paths. With the shipped code staging files are private to their transaction
/// (random O_EXCL names), so these extra points only multiply equivalent schedules; they matter if that privacy is lost.
pub fn visible_with_staging(ev: &Event<'_>) -> bool {
    use crate::shim::Kind::*;
    if visible_default(ev) {
        return true;
    }
    ev.rel.starts_with("staging/") && matches!(ev.kind, Open | Stat | Unlink | Rename | Write | Pwrite | Truncate | Ftruncate)
}

/// Every call under the root (used for racing opens).
pub fn visible_all(ev: &Event<'_>) -> bool {
    !matches!(ev.kind, crate::shim::Kind::Close)
}

#[derive(Clone, Debug, PartialEq, Eq)]
pub struct PointRec {
    /// thread ids enabled at this point in canonical order (running thread first if enabled, then ascending)
    pub enabled: Vec<usize>,
    pub chosen: usize,
    /// the previously running thread was still enabled (choosing another one is a preemption)
    pub running_enabled: bool,
    pub label: String,
}

pub enum Outcome {
    Completed,
    Deadlock { waiting: Vec<String> },
    Stuck { thread: usize, label: String },
    Diverged(String),
}

pub struct Execution {
    pub points: Vec<PointRec>,
    pub outcome: Outcome,
}

impl Execution {
    pub fn choices(&self) -> Vec<usize> {
        self.points.iter().map(|p| p.enabled.iter().position(|t| *t == p.chosen).unwrap()).collect()
    }
    pub fn preemptions_before(&self, i: usize) -> usize {
        self.points[..i].iter().filter(|p| p.running_enabled && p.enabled[0] != p.chosen).count()
    }
}

pub type Body = Box<dyn FnOnce() + Send + 'static>;

/// Run `bodies` (one per worker) under the schedule given by `prefix` (indices into the canonical enabled
/// list), defaults afterwards. `monitor` is called at every decision point while every worker is parked.
pub fn run_schedule(
    root: &std::path::Path,
    bodies: Vec<Body>,
    prefix: &[usize],
    visible: fn(&Event<'_>) -> bool,
    monitor: &mut dyn FnMut(usize, &str),
    stuck_timeout: Duration,
) -> Execution {
    let n = bodies.len();
    let inner = Arc::new(Inner {
        m: Mutex::new(St { turn: Turn::Controller, th: (0..n).map(|_| Th { status: Status::NotStarted, label: String::new(), free: None }).collect() }),
        cv: Condvar::new(),
        clock: AtomicU64::new(0),
    });
    *ACTIVE.lock().unwrap() = Some(inner.clone());
    EVENT_LOG.lock().unwrap().clear();
    install_hooks(visible);
    shim::arm(
        root,
        Arc::new(move |ev, ph| {
            match ph {
                Phase::Pre => {
                    if visible(ev) {
                        yield_here(format!("fs:{}", canon_label(&ev.show())), None);
                    }
                }
                Phase::Post { ret, err } => {
                    if let Some(id) = WORKER.with(|w| w.get()) {
                        EVENT_LOG.lock().unwrap().push((id, canon_label(&ev.show()), ev.mutating, ret, err));
                    }
                }
            }
            0
        }),
    );
    let mut handles = Vec::new();
    for (id, body) in bodies.into_iter().enumerate() {
        let inner2 = inner.clone();
        handles.push(std::thread::spawn(move || {
            WORKER.with(|w| w.set(Some(id)));
            shim::participate(true);
            yield_here("start".into(), None);
            let _ = std::panic::catch_unwind(std::panic::AssertUnwindSafe(body));
            shim::participate(false);
            let mut st = inner2.m.lock().unwrap();
            st.th[id].status = Status::Finished;
            if st.turn == Turn::Worker(id) {
                st.turn = Turn::Controller;
            }
            inner2.cv.notify_all();
            WORKER.with(|w| w.set(None));
        }));
    }
    let mut points: Vec<PointRec> = Vec::new();
    let mut running: Option<usize> = None;
    let mut step = 0usize;
    let outcome = loop {
        // wait until every worker is parked or finished and the turn is ours
        let mut st = inner.m.lock().unwrap();
        let mut waited = Duration::ZERO;
        let mut stuck: Option<usize> = None;
        loop {
            let all_quiet = st.turn == Turn::Controller && st.th.iter().all(|t| matches!(t.status, Status::Parked | Status::Finished));
            if all_quiet {
                break;
            }
            let (g, to) = inner.cv.wait_timeout(st, Duration::from_millis(200)).unwrap();
            st = g;
            if to.timed_out() {
                waited += Duration::from_millis(200);
                if waited >= stuck_timeout {
                    if let Turn::Worker(t) = st.turn {
                        stuck = Some(t);
                    } else {
                        stuck = st.th.iter().position(|t| matches!(t.status, Status::Running | Status::NotStarted));
                    }
                    break;
                }
            }
        }
        if let Some(t) = stuck {
            let label = st.th[t].label.clone();
            break Outcome::Stuck { thread: t, label };
        }
        if st.th.iter().all(|t| t.status == Status::Finished) {
            break Outcome::Completed;
        }
        // enabled set (all workers are parked: evaluating their lock predicates is race-free)
        let mut enabled: Vec<usize> = Vec::new();
        for (i, t) in st.th.iter().enumerate() {
            if t.status == Status::Parked {
                let free = match &t.free {
                    None => true,
                    Some(FreePtr(p)) => unsafe { (&**p)() },
                };
                if free {
                    enabled.push(i);
                }
            }
        }
        if enabled.is_empty() {
            let waiting = st.th.iter().enumerate().filter(|(_, t)| t.status == Status::Parked).map(|(i, t)| format!("T{i}@{}", t.label)).collect();
            // release everybody so the threads can be joined: a deadlocked execution is abandoned
            break Outcome::Deadlock { waiting };
        }
        let running_enabled = running.map_or(false, |r| enabled.contains(&r));
        if running_enabled {
            let r = running.unwrap();
            enabled.retain(|x| *x != r);
            enabled.insert(0, r);
        }
        let idx = if step < prefix.len() { prefix[step] } else { 0 };
        if idx >= enabled.len() {
            break Outcome::Diverged(format!("replaying choice {idx} at point {step} but only {} threads are enabled", enabled.len()));
        }
        let chosen = enabled[idx];
        let label = format!("T{chosen}@{}", st.th[chosen].label);
        drop(st);
        let prev = points.last().map_or(String::new(), |p: &PointRec| p.label.clone());
        monitor(step, &prev);
        points.push(PointRec { enabled, chosen, running_enabled, label });
        step += 1;
        running = Some(chosen);
        let mut st = inner.m.lock().unwrap();
        st.turn = Turn::Worker(chosen);
        inner.cv.notify_all();
        drop(st);
    };
    match &outcome {
        Outcome::Completed => {
            for h in handles {
                let _ = h.join();
            }
        }
        _ => {
            // abandon: let every parked thread run freely to completion if it can; detach the rest
            {
                let mut st = inner.m.lock().unwrap();
                for t in st.th.iter_mut() {
                    t.free = None;
                }
            }
            *ACTIVE.lock().unwrap() = None;
            // wake everybody: yield_here re-checks ACTIVE only on entry, so grant turns one by one
            for id in 0..n {
                let mut st = inner.m.lock().unwrap();
                if st.th[id].status == Status::Parked {
                    st.turn = Turn::Worker(id);
                    inner.cv.notify_all();
                    drop(st);
                    std::thread::sleep(Duration::from_millis(20));
                }
            }
            drop(handles);
        }
    }
    shim::disarm();
    cassadilia::verif::install(None);
    *ACTIVE.lock().unwrap() = None;
    Execution { points, outcome }
}

/// Deviation-bounded exhaustive exploration. `run` executes one schedule prefix and returns the execution
/// (after evaluating its oracles); `bound` = None means no preemption bound. Returns (executions, capped, divergence).
/// While replaying a prefix, every decision point must show the same enabled set and the same pending
/// operations as in the execution the prefix was derived from; anything else is nondeterminism the harness
/// does not own and is reported as a machinery error, never as a verdict.
pub fn explore(bound: Option<usize>, max_execs: u64, run: &mut dyn FnMut(&[usize]) -> Option<Execution>) -> (u64, bool, Option<String>) {
    let mut stack: Vec<(Vec<usize>, Vec<PointRec>)> = vec![(vec![], vec![])];
    let mut execs = 0u64;
    while let Some((prefix, expect)) = stack.pop() {
        if execs >= max_execs {
            return (execs, true, None);
        }
        let Some(x) = run(&prefix) else { return (execs, false, None) };
        execs += 1;
        if let Outcome::Diverged(d) = &x.outcome {
            return (execs, false, Some(d.clone()));
        }
        for (i, e) in expect.iter().enumerate() {
            match x.points.get(i) {
                Some(p) if p.enabled == e.enabled && p.label == e.label => {}
                other => {
                    return (execs, false, Some(format!("replay of prefix {prefix:?} diverged at point {i}: expected {:?} {}, got {:?}", e.enabled, e.label, other.map(|p| (&p.enabled, &p.label)))));
                }
            }
        }
        let choices = x.choices();
        for i in (prefix.len()..x.points.len()).rev() {
            let p = &x.points[i];
            let base = x.preemptions_before(i);
            for alt in (1..p.enabled.len()).rev() {
                let cost = base + usize::from(p.running_enabled);
                if bound.map_or(true, |b| cost <= b) {
                    let mut np = choices[..i].to_vec();
                    np.push(alt);
                    stack.push((np, x.points[..i].to_vec()));
                }
            }
        }
    }
    (execs, false, None)
}
