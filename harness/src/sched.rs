//! Controlled scheduler: worker OS threads run real API calls, exactly one at a time; the controller
//! decides who runs at every scheduling point (before each index-lock acquisition — repo hook —, before
//! each *visible* filesystem call — shim —, and between API calls). Exploration is a deviation-bounded
//! (preemption-bounded) depth-first search over the choices.

use crate::shim::{self, Event, Phase};
use std::cell::Cell;
use std::sync::atomic::{AtomicU64, Ordering};
use std::sync::{Arc, Condvar, Mutex};
use std::time::Duration;

struct FreePtr(*const (dyn Fn() -> bool + 'static));
unsafe impl Send for FreePtr {}

#[derive(Clone, Copy, PartialEq, Eq, Debug)]
enum Status {
    NotStarted,
    Parked,
    Running,
    Finished,
}

struct Th {
    status: Status,
    label: String,
    free: Option<FreePtr>,
    /// (lock address, exclusive) of the pending acquisition, if the point is a lock point
    lock: Option<(usize, bool)>,
}

pub type Monitor = Box<dyn FnMut(usize, &str) + Send>;

struct St {
    /// the worker that may run (None while a decision is pending or the execution is over)
    turn: Option<usize>,
    th: Vec<Th>,
    points: Vec<PointRec>,
    running: Option<usize>,
    prefix: Vec<usize>,
    outcome: Option<Outcome>,
    progress: u64,
    started: bool,
    abandon: bool,
    monitor: Option<Monitor>,
}

pub struct Inner {
    m: Mutex<St>,
    /// one condition variable per worker (targeted wake-ups) and one for the coordinating main thread
    cvs: Vec<Condvar>,
    cv_main: Condvar,
    pub clock: AtomicU64,
}

thread_local! {
    static WORKER: Cell<Option<usize>> = const { Cell::new(None) };
    /// the execution this worker thread belongs to: a thread leaked by an abandoned (deadlocked / hung) execution must
    /// never touch the state of a later one
    static MINE: std::cell::RefCell<Option<Arc<Inner>>> = const { std::cell::RefCell::new(None) };
    /// set while this thread runs the monitor inside a decision: its own lock / filesystem calls are not scheduling points
    static IN_MONITOR: Cell<bool> = const { Cell::new(false) };
}
static ACTIVE: Mutex<Option<Arc<Inner>>> = Mutex::new(None);

/// (worker, call, mutating, return value, errno) of every call under the root made by workers (filled in the Post phase).
pub static EVENT_LOG: Mutex<Vec<(usize, String, bool, i64, i32)>> = Mutex::new(Vec::new());

/// Fault x schedule programs: the k-th mutating filesystem call made by worker `thread` fails with EIO (once).
/// `fired` = (logical clock at the moment of the failure, text of the failed call).
pub struct FaultSpec {
    pub thread: usize,
    pub k: u64,
    pub seen: u64,
    pub fired: Option<(u64, String)>,
}
pub static FAULT: Mutex<Option<FaultSpec>> = Mutex::new(None);

pub fn set_fault(spec: Option<(usize, u64)>) {
    *FAULT.lock().unwrap() = spec.map(|(thread, k)| FaultSpec { thread, k, seen: 0, fired: None });
}

pub fn take_fault_fired() -> Option<(u64, String)> {
    FAULT.lock().unwrap().take().and_then(|f| f.fired)
}

fn active() -> Option<Arc<Inner>> {
    let mine = MINE.with(|m| m.borrow().clone())?;
    let cur = ACTIVE.lock().unwrap().clone()?;
    if Arc::ptr_eq(&mine, &cur) { Some(mine) } else { None }
}

/// The scheduling decision. Runs under the scheduler mutex in whichever thread just parked or finished (or in
/// the main thread for the very first decision): every worker is parked or finished at that moment, so
/// evaluating their lock predicates and running the monitor is race-free. If the decision is "keep running
/// the caller", no context switch happens at all.
fn decide(inner: &Inner, st: &mut St) {
    if st.outcome.is_some() || !st.started || st.turn.is_some() {
        return;
    }
    if st.th.iter().any(|t| matches!(t.status, Status::NotStarted | Status::Running)) {
        return;
    }
    if st.th.iter().all(|t| t.status == Status::Finished) {
        st.outcome = Some(Outcome::Completed);
        inner.cv_main.notify_all();
        return;
    }
    let mut enabled: Vec<usize> = Vec::new();
    for (i, t) in st.th.iter().enumerate() {
        if t.status == Status::Parked {
            let free = match &t.free {
                None => true,
                Some(FreePtr(p)) => unsafe { (&**p)() },
            };
            if free {
                enabled.push(i);
            }
        }
    }
    if enabled.is_empty() {
        let waiting = st.th.iter().enumerate().filter(|(_, t)| t.status == Status::Parked).map(|(i, t)| format!("T{i}@{}", t.label)).collect();
        st.outcome = Some(Outcome::Deadlock { waiting });
        inner.cv_main.notify_all();
        return;
    }
    // parking_lot gives waiting writers preference: once an exclusive acquisition of a read-held lock is queued, further
    // shared acquisitions of that lock block. A parked shared request on L is therefore "writer-blocked" if some parked
    // exclusive request on the same L is currently not free although L is not exclusively held (= L is read-held). If every
    // enabled thread is writer-blocked, the interleaving in which the writers queued first leaves nobody able to run: the
    // reader(s) holding L wait behind the writer that waits for them (a recursive read under a queued writer).
    {
        let mut blocked_writers: Vec<usize> = Vec::new();
        for t in st.th.iter() {
            if t.status == Status::Parked {
                if let (Some((addr, true)), Some(FreePtr(p))) = (t.lock, &t.free) {
                    if !unsafe { (&**p)() } {
                        blocked_writers.push(addr);
                    }
                }
            }
        }
        let writer_blocked = |i: &usize| matches!(st.th[*i].lock, Some((addr, false)) if blocked_writers.contains(&addr));
        if !blocked_writers.is_empty() && enabled.iter().all(writer_blocked) {
            let waiting = st.th.iter().enumerate().filter(|(_, t)| t.status == Status::Parked).map(|(i, t)| format!("T{i}@{}", t.label)).collect::<Vec<_>>();
            st.outcome = Some(Outcome::Deadlock { waiting: std::iter::once("writer preference: a shared acquisition requested while an exclusive one is queued on the same read-held lock".to_string()).chain(waiting).collect() });
            inner.cv_main.notify_all();
            return;
        }
    }
    let running_enabled = st.running.map_or(false, |r| enabled.contains(&r));
    if running_enabled {
        let r = st.running.unwrap();
        enabled.retain(|x| *x != r);
        enabled.insert(0, r);
    }
    let step = st.points.len();
    let idx = if step < st.prefix.len() { st.prefix[step] } else { 0 };
    if idx >= enabled.len() {
        st.outcome = Some(Outcome::Diverged(format!("replaying choice {idx} at point {step} but only {} threads are enabled", enabled.len())));
        inner.cv_main.notify_all();
        return;
    }
    let chosen = enabled[idx];
    let label = format!("T{chosen}@{}", st.th[chosen].label);
    let prev = st.points.last().map_or(String::new(), |p| p.label.clone());
    if let Some(mut mon) = st.monitor.take() {
        let was = shim::is_participant();
        IN_MONITOR.with(|f| f.set(true));
        shim::participate(false);
        mon(step, &prev);
        shim::participate(was);
        IN_MONITOR.with(|f| f.set(false));
        st.monitor = Some(mon);
    }
    st.points.push(PointRec { enabled, chosen, running_enabled, label });
    st.running = Some(chosen);
    st.turn = Some(chosen);
    st.progress += 1;
    inner.cvs[chosen].notify_one();
}

/// Park the calling worker at a scheduling point until it is granted the turn (possibly at once).
fn yield_here(label: String, free: Option<FreePtr>) {
    yield_at(label, free, None)
}

fn yield_at(label: String, free: Option<FreePtr>, lock: Option<(usize, bool)>) {
    if IN_MONITOR.with(|f| f.get()) {
        return;
    }
    let Some(id) = WORKER.with(|w| w.get()) else { return };
    let Some(inner) = active() else { return };
    let mut st = inner.m.lock().unwrap();
    if st.abandon {
        return;
    }
    let first = st.th[id].status == Status::NotStarted;
    st.th[id].status = Status::Parked;
    st.th[id].label = label;
    st.th[id].free = free;
    st.th[id].lock = lock;
    if st.turn == Some(id) {
        st.turn = None;
    }
    if first {
        inner.cv_main.notify_all();
    }
    decide(&inner, &mut st);
    while st.turn != Some(id) && !st.abandon {
        st = inner.cvs[id].wait(st).unwrap();
    }
    st.th[id].status = Status::Running;
    st.th[id].free = None;
}

/// Staging file names are random; labels must be identical across re-executions.
fn canon_label(s: &str) -> String {
    let mut out = String::new();
    let mut rest = s;
    while let Some(i) = rest.find("staging/") {
        out.push_str(&rest[..i + 8]);
        out.push('#');
        rest = &rest[i + 8..];
        let end = rest.find(|c: char| c == ' ' || c == ')' || c == ',').unwrap_or(rest.len());
        rest = &rest[end..];
    }
    out.push_str(rest);
    out
}

/// Scheduling point between API calls of one thread.
pub fn step_point(label: &str) {
    yield_here(label.to_string(), None);
}

pub fn tick() -> u64 {
    active().map_or(0, |i| i.clock.fetch_add(1, Ordering::SeqCst) + 1)
}

fn install_hooks(visible: fn(&Event<'_>) -> bool) {
    cassadilia::verif::install(Some(Arc::new(|p: &cassadilia::verif::Point<'_>| {
        if WORKER.with(|w| w.get()).is_none() {
            return;
        }
        // the closure lives on the caller's stack and the caller stays parked while the controller evaluates it
        let ptr: *const (dyn Fn() -> bool + '_) = p.is_free;
        let ptr: *const (dyn Fn() -> bool + 'static) = unsafe { std::mem::transmute(ptr) };
        yield_at(format!("{}:{:?}{}", p.label, p.lock, if p.exclusive { "" } else { "(shared)" }), Some(FreePtr(ptr)), Some((p.addr, p.exclusive)));
    })));
    let _ = visible;
}

/// The three kinds of visible filesystem calls of ordinary programs: anything at blob level under cas/,
/// and renames / links / unlinks that touch cas/.
pub fn visible_default(ev: &Event<'_>) -> bool {
    use crate::shim::Kind::*;
    let in_cas = |p: &str| p.starts_with("cas/");
    let blob_level = |p: &str| p.starts_with("cas/") && p.matches('/').count() >= 3;
    match ev.kind {
        Mkdir | Close | Flock | Fsync | Fdatasync | SyncRange => false,
        Rename | Link | Symlink => in_cas(&ev.rel) || ev.rel2.as_deref().map_or(false, in_cas),
        Unlink | Rmdir => in_cas(&ev.rel),
        _ => blob_level(&ev.rel),
    }
}

/// Default plus every call on staging/ paths. With the shipped code staging files are private to their transaction
/// (random O_EXCL names), so these extra points only multiply equivalent schedules; they matter if that privacy is lost.
pub fn visible_with_staging(ev: &Event<'_>) -> bool {
    use crate::shim::Kind::*;
    if visible_default(ev) {
        return true;
    }
    ev.rel.starts_with("staging/") && matches!(ev.kind, Open | Stat | Unlink | Rename | Write | Pwrite | Truncate | Ftruncate)
}

/// Every call under the root (used for racing opens).
pub fn visible_all(ev: &Event<'_>) -> bool {
    !matches!(ev.kind, crate::shim::Kind::Close)
}

#[derive(Clone, Debug, PartialEq, Eq)]
pub struct PointRec {
    /// thread ids enabled at this point in canonical order (running thread first if enabled, then ascending)
    pub enabled: Vec<usize>,
    pub chosen: usize,
    /// the previously running thread was still enabled (choosing another one is a preemption)
    pub running_enabled: bool,
    pub label: String,
}

pub enum Outcome {
    Completed,
    Deadlock { waiting: Vec<String> },
    Stuck { thread: usize, label: String },
    Diverged(String),
}

pub struct Execution {
    pub points: Vec<PointRec>,
    pub outcome: Outcome,
}

impl Execution {
    pub fn choices(&self) -> Vec<usize> {
        self.points.iter().map(|p| p.enabled.iter().position(|t| *t == p.chosen).unwrap()).collect()
    }
    pub fn preemptions_before(&self, i: usize) -> usize {
        self.points[..i].iter().filter(|p| p.running_enabled && p.enabled[0] != p.chosen).count()
    }
}

pub type Body = Box<dyn FnOnce() + Send + 'static>;

/// Run `bodies` (one per worker) under the schedule given by `prefix` (indices into the canonical enabled
/// list), defaults afterwards. `monitor` is called at every decision point while every worker is parked.
pub fn run_schedule(root: &std::path::Path, bodies: Vec<Body>, prefix: &[usize], visible: fn(&Event<'_>) -> bool, monitor: Monitor, stuck_timeout: Duration) -> Execution {
    let n = bodies.len();
    let inner = Arc::new(Inner {
        m: Mutex::new(St {
            turn: None,
            th: (0..n).map(|_| Th { status: Status::NotStarted, label: String::new(), free: None, lock: None }).collect(),
            points: Vec::new(),
            running: None,
            prefix: prefix.to_vec(),
            outcome: None,
            progress: 0,
            started: false,
            abandon: false,
            monitor: Some(monitor),
        }),
        cvs: (0..n).map(|_| Condvar::new()).collect(),
        cv_main: Condvar::new(),
        clock: AtomicU64::new(0),
    });
    *ACTIVE.lock().unwrap() = Some(inner.clone());
    EVENT_LOG.lock().unwrap().clear();
    install_hooks(visible);
    shim::arm(
        root,
        Arc::new(move |ev, ph| {
            match ph {
                Phase::Pre => {
                    if visible(ev) {
                        yield_here(format!("fs:{}", canon_label(&ev.show())), None);
                    }
                    if ev.mutating {
                        if let Some(id) = WORKER.with(|w| w.get()) {
                            let mut f = FAULT.lock().unwrap();
                            if let Some(f) = f.as_mut() {
                                if f.thread == id && f.fired.is_none() {
                                    f.seen += 1;
                                    if f.seen == f.k {
                                        f.fired = Some((tick(), canon_label(&ev.show())));
                                        return libc::EIO;
                                    }
                                }
                            }
                        }
                    }
                }
                Phase::Post { ret, err } => {
                    if let Some(id) = WORKER.with(|w| w.get()) {
                        EVENT_LOG.lock().unwrap().push((id, canon_label(&ev.show()), ev.mutating, ret, err));
                    }
                }
            }
            0
        }),
    );
    let mut handles = Vec::new();
    for (id, body) in bodies.into_iter().enumerate() {
        let inner2 = inner.clone();
        handles.push(std::thread::spawn(move || {
            WORKER.with(|w| w.set(Some(id)));
            MINE.with(|m| *m.borrow_mut() = Some(inner2.clone()));
            shim::participate(true);
            yield_here("start".into(), None);
            let _ = std::panic::catch_unwind(std::panic::AssertUnwindSafe(body));
            shim::participate(false);
            let mut st = inner2.m.lock().unwrap();
            st.th[id].status = Status::Finished;
            st.th[id].free = None;
            if st.turn == Some(id) {
                st.turn = None;
            }
            if !st.abandon {
                decide(&inner2, &mut st);
            }
            drop(st);
            WORKER.with(|w| w.set(None));
            MINE.with(|m| *m.borrow_mut() = None);
        }));
    }
    // first decision once every worker is parked at its start point; then wait for the end of the execution
    let mut st = inner.m.lock().unwrap();
    let mut waited = Duration::ZERO;
    let mut last_progress = 0u64;
    let outcome = loop {
        if !st.started && st.th.iter().all(|t| t.status != Status::NotStarted) {
            st.started = true;
            decide(&inner, &mut st);
        }
        if let Some(o) = st.outcome.take() {
            break o;
        }
        let (g, to) = inner.cv_main.wait_timeout(st, Duration::from_millis(250)).unwrap();
        st = g;
        if st.progress != last_progress {
            last_progress = st.progress;
            waited = Duration::ZERO;
        } else if to.timed_out() {
            waited += Duration::from_millis(250);
            if waited >= stuck_timeout && st.outcome.is_none() {
                let t = st.turn.or_else(|| st.th.iter().position(|t| matches!(t.status, Status::Running | Status::NotStarted))).unwrap_or(0);
                let label = st.points.last().map_or(String::new(), |p| p.label.clone());
                break Outcome::Stuck { thread: t, label };
            }
        }
    };
    let points = std::mem::take(&mut st.points);
    st.monitor = None;
    match &outcome {
        Outcome::Completed => {
            drop(st);
            for h in handles {
                let _ = h.join();
            }
        }
        _ => {
            // abandon the execution: every parked worker is released and runs freely from here on (a really
            // deadlocked or hung thread stays blocked and is leaked; it holds nothing the next execution needs)
            st.abandon = true;
            for t in st.th.iter_mut() {
                t.free = None;
            }
            for cv in &inner.cvs {
                cv.notify_all();
            }
            drop(st);
            *ACTIVE.lock().unwrap() = None;
            std::thread::sleep(Duration::from_millis(50));
            drop(handles);
        }
    }
    shim::disarm();
    cassadilia::verif::install(None);
    *ACTIVE.lock().unwrap() = None;
    Execution { points, outcome }
}

/// Deviation-bounded exhaustive exploration. `run` executes one schedule prefix and returns the execution
/// (after evaluating its oracles); `bound` = None means no preemption bound. Returns (executions, capped, divergence).
/// While replaying a prefix, every decision point must show the same enabled set and the same pending
/// operations as in the execution the prefix was derived from; anything else is nondeterminism the harness
/// does not own and is reported as a machinery error, never as a verdict.
pub fn explore(bound: Option<usize>, max_execs: u64, run: &mut dyn FnMut(&[usize]) -> Option<Execution>) -> (u64, bool, Option<String>) {
    let mut stack: Vec<(Vec<usize>, Vec<PointRec>)> = vec![(vec![], vec![])];
    let mut execs = 0u64;
    while let Some((prefix, expect)) = stack.pop() {
        if execs >= max_execs {
            return (execs, true, None);
        }
        let Some(x) = run(&prefix) else { return (execs, false, None) };
        execs += 1;
        if let Outcome::Diverged(d) = &x.outcome {
            return (execs, false, Some(d.clone()));
        }
        for (i, e) in expect.iter().enumerate() {
            match x.points.get(i) {
                Some(p) if p.enabled == e.enabled && p.label == e.label => {}
                other => {
                    return (execs, false, Some(format!("replay of prefix {prefix:?} diverged at point {i}: expected {:?} {}, got {:?}", e.enabled, e.label, other.map(|p| (&p.enabled, &p.label)))));
                }
            }
        }
        let choices = x.choices();
        for i in (prefix.len()..x.points.len()).rev() {
            let p = &x.points[i];
            let base = x.preemptions_before(i);
            for alt in (1..p.enabled.len()).rev() {
                let cost = base + usize::from(p.running_enabled);
                if bound.map_or(true, |b| cost <= b) {
                    let mut np = choices[..i].to_vec();
                    np.push(alt);
                    stack.push((np, x.points[..i].to_vec()));
                }
            }
        }
    }
    (execs, false, None)
}
