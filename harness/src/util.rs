//! Scratch directories, in-memory directory images, small helpers.

use std::collections::{BTreeMap, BTreeSet};
use std::path::{Path, PathBuf};
use std::sync::atomic::{AtomicU64, Ordering};

pub fn hex(bytes: &[u8]) -> String {
    const H: &[u8; 16] = b"0123456789abcdef";
    let mut s = String::with_capacity(bytes.len() * 2);
    for b in bytes {
        s.push(H[(b >> 4) as usize] as char);
        s.push(H[(b & 15) as usize] as char);
    }
    s
}

pub fn b3(data: &[u8]) -> [u8; 32] {
    *blake3::hash(data).as_bytes()
}

/// Short printable form of a byte string for messages.
pub fn show(data: &[u8]) -> String {
    if data.len() <= 16 {
        format!("{:?}", String::from_utf8_lossy(data))
    } else {
        format!("<{} bytes b3={}>", data.len(), &hex(&b3(data))[..8])
    }
}

static COUNTER: AtomicU64 = AtomicU64::new(0);

/// Root for scratch databases of this process: /dev/shm/cvh-<pid> (tmpfs) or $TMPDIR.
pub fn scratch_root() -> PathBuf {
    let base = if Path::new("/dev/shm").is_dir() {
        PathBuf::from("/dev/shm")
    } else {
        std::env::temp_dir()
    };
    let p = base.join(format!("cvh-{}", std::process::id()));
    if !p.exists() {
        // first use in this process: sweep scratch roots left behind by workers that were killed
        if let Ok(rd) = std::fs::read_dir(&base) {
            for e in rd.flatten() {
                let name = e.file_name().to_string_lossy().into_owned();
                if let Some(pid) = name.strip_prefix("cvh-").and_then(|x| x.parse::<u32>().ok()) {
                    if !Path::new(&format!("/proc/{pid}")).exists() {
                        let _ = std::fs::remove_dir_all(e.path());
                    }
                }
            }
        }
    }
    std::fs::create_dir_all(&p).expect("create scratch root");
    p
}

pub fn fresh_dir(tag: &str) -> PathBuf {
    let n = COUNTER.fetch_add(1, Ordering::Relaxed);
    scratch_root().join(format!("{tag}{n}"))
}

pub fn rm_rf(p: &Path) {
    let _ = std::fs::remove_dir_all(p);
}

pub fn cleanup_scratch() {
    rm_rf(&scratch_root());
}

/// An in-memory copy of a directory tree: relative paths, '/'-separated.
#[derive(Clone, Debug, PartialEq, Eq, Default)]
pub struct Image {
    pub dirs: BTreeSet<String>,
    pub files: BTreeMap<String, Vec<u8>>,
}

impl Image {
    pub fn load(root: &Path) -> Image {
        let mut im = Image::default();
        fn walk(root: &Path, rel: &str, im: &mut Image) {
            let dir = if rel.is_empty() { root.to_path_buf() } else { root.join(rel) };
            let Ok(rd) = std::fs::read_dir(&dir) else { return };
            for e in rd.flatten() {
                let name = e.file_name().to_string_lossy().into_owned();
                let r = if rel.is_empty() { name.clone() } else { format!("{rel}/{name}") };
                let Ok(ft) = e.file_type() else { continue };
                if ft.is_dir() {
                    im.dirs.insert(r.clone());
                    walk(root, &r, im);
                } else if ft.is_file() {
                    im.files.insert(r, std::fs::read(e.path()).unwrap_or_default());
                }
            }
        }
        walk(root, "", &mut im);
        im
    }

    pub fn materialize(&self, root: &Path) {
        std::fs::create_dir_all(root).expect("mk image root");
        for d in &self.dirs {
            std::fs::create_dir_all(root.join(d)).expect("mk image dir");
        }
        for (f, data) in &self.files {
            let p = root.join(f);
            if let Some(parent) = p.parent() {
                let _ = std::fs::create_dir_all(parent);
            }
            std::fs::write(&p, data).expect("write image file");
        }
    }

    /// Files under a top-level directory (e.g. "cas"), relative to it.
    pub fn files_under(&self, top: &str) -> BTreeMap<String, &Vec<u8>> {
        let pre = format!("{top}/");
        self.files
            .iter()
            .filter(|(k, _)| k.starts_with(&pre))
            .map(|(k, v)| (k[pre.len()..].to_string(), v))
            .collect()
    }

    /// Same tree ignoring LOCK (whose presence/emptiness carries no data).
    pub fn eq_ignoring_lock(&self, other: &Image) -> bool {
        let f = |im: &Image| {
            im.files.iter().filter(|(k, _)| k.as_str() != "LOCK").map(|(k, v)| (k.clone(), v.clone())).collect::<Vec<_>>()
        };
        self.dirs == other.dirs && f(self) == f(other)
    }

    pub fn diff(&self, other: &Image) -> String {
        let mut out = Vec::new();
        for d in self.dirs.symmetric_difference(&other.dirs) {
            out.push(format!("dir {d} only on one side"));
        }
        let keys: BTreeSet<&String> = self.files.keys().chain(other.files.keys()).collect();
        for k in keys {
            match (self.files.get(k), other.files.get(k)) {
                (Some(a), Some(b)) if a != b => out.push(format!("file {k}: {} vs {}", show(a), show(b))),
                (Some(_), None) => out.push(format!("file {k} only left")),
                (None, Some(_)) => out.push(format!("file {k} only right")),
                _ => {}
            }
        }
        out.join("; ")
    }

    pub fn summary(&self) -> String {
        self.files.iter().map(|(k, v)| format!("{k}:{}", v.len())).collect::<Vec<_>>().join(" ")
    }
}

pub fn copy_dir(src: &Path, dst: &Path) {
    Image::load(src).materialize(dst);
}

/// Run `f`, converting a panic into Err(message).
pub fn catch<T>(f: impl FnOnce() -> T) -> Result<T, String> {
    match std::panic::catch_unwind(std::panic::AssertUnwindSafe(f)) {
        Ok(v) => Ok(v),
        Err(e) => {
            let msg = if let Some(s) = e.downcast_ref::<&str>() {
                (*s).to_string()
            } else if let Some(s) = e.downcast_ref::<String>() {
                s.clone()
            } else {
                "panic (non-string payload)".to_string()
            };
            Err(msg)
        }
    }
}

/// Silence the default panic message (we catch and report panics ourselves).
pub fn quiet_panics() {
    if std::env::var("CVH_SHOW_PANICS").is_ok() {
        return;
    }
    std::panic::set_hook(Box::new(|_| {}));
}

pub fn err_chain(e: &dyn std::error::Error) -> String {
    let mut s = e.to_string();
    let mut cur = e.source();
    while let Some(c) = cur {
        s.push_str(" <- ");
        s.push_str(&c.to_string());
        cur = c.source();
    }
    s
}
