//! PLANT — every small subset of a garbage/corruption menu planted into every closed store of a
//! bounded history; the start-up scan must classify exactly, clean-up must remove exactly the garbage. Serves C08.

use crate::crash::{ORPHAN_NAMES, expected_orphans, reported_orphans};
use crate::keys::HKey;
use crate::model::Model;
use crate::ondisk;
use crate::ops::{self, Cfg, Op};
use crate::real::{self, Store};
use crate::report::{Violation, WorkerResult};
use crate::util::{self, Image, b3, hex};
use cassadilia::{BlobHash, Config};
use serde_json::{Value, json};
use std::collections::BTreeSet;

pub const MENU: &[&str] = &[
    "file-in-cas-root",
    "file-in-cas-l1",
    "misnamed-in-l2",
    "unreferenced-blob",
    "uppercase-name",
    "staging-leftover",
    "referenced-blob-deleted",
    "referenced-blob-corrupted-same-size",
    "referenced-blob-wrong-size",
    "unreferenced-blob-wrong-content",
    "second-unreferenced-blob",
    "referenced-empty-blob-made-nonempty",
    "uppercase-shard-dir",
];

fn first_ref<K: HKey>(m: &Model<K>) -> Option<[u8; 32]> {
    m.map.values().find(|v| !v.is_empty()).map(|v| b3(v))
}

/// Apply garbage item `g` to the image; returns false if it is not applicable to this store.
pub fn plant<K: HKey>(im: &mut Image, m: &Model<K>, g: &str) -> bool {
    let mut put = |im: &mut Image, path: String, data: Vec<u8>| {
        let parts: Vec<&str> = path.split('/').collect();
        for i in 1..parts.len() {
            im.dirs.insert(parts[..i].join("/"));
        }
        im.files.insert(path, data);
    };
    match g {
        "file-in-cas-root" => put(im, "cas/stray.txt".into(), b"junk".to_vec()),
        "file-in-cas-l1" => put(im, "cas/ab/stray".into(), b"junk".to_vec()),
        "misnamed-in-l2" => put(im, "cas/ab/cd/not-a-hash".into(), b"junk".to_vec()),
        "unreferenced-blob" => {
            let d = b"orphan-one".to_vec();
            put(im, format!("cas/{}", ondisk::path_of_hash(&b3(&d))), d)
        }
        "second-unreferenced-blob" => {
            let d = b"orphan-two!".to_vec();
            put(im, format!("cas/{}", ondisk::path_of_hash(&b3(&d))), d)
        }
        "uppercase-name" => {
            let d = b"UPPER".to_vec();
            put(im, format!("cas/{}", ondisk::path_of_hash(&b3(&d)).to_uppercase()), d)
        }
        "uppercase-shard-dir" => {
            // only the first directory level is upper-case; the file name itself is the canonical lower-case tail
            let d = b"shard-case".to_vec();
            let p = ondisk::path_of_hash(&b3(&d));
            let (l1, rest) = p.split_at(2);
            if l1.to_uppercase() == l1 {
                return false;
            }
            put(im, format!("cas/{}{}", l1.to_uppercase(), rest), d)
        }
        "staging-leftover" => put(im, "staging/.tmpLEFTOVER".into(), b"partial".to_vec()),
        "unreferenced-blob-wrong-content" => {
            let d = b"orphan-three".to_vec();
            put(im, format!("cas/{}", ondisk::path_of_hash(&b3(&d))), b"something else".to_vec())
        }
        "referenced-empty-blob-made-nonempty" => {
            if !m.map.values().any(|v| v.is_empty()) {
                return false;
            }
            let p = format!("cas/{}", ondisk::path_of_hash(&b3(b"")));
            if !im.files.contains_key(&p) {
                return false;
            }
            im.files.insert(p, b"no longer empty".to_vec());
        }
        "referenced-blob-deleted" | "referenced-blob-corrupted-same-size" | "referenced-blob-wrong-size" => {
            let Some(h) = first_ref(m) else { return false };
            let p = format!("cas/{}", ondisk::path_of_hash(&h));
            let Some(cur) = im.files.get(&p).cloned() else { return false };
            match g {
                "referenced-blob-deleted" => {
                    im.files.remove(&p);
                }
                "referenced-blob-corrupted-same-size" => {
                    let mut c = cur;
                    c[0] ^= 0x55;
                    im.files.insert(p, c);
                }
                _ => {
                    let mut c = cur;
                    c.push(b'!');
                    im.files.insert(p, c);
                }
            }
        }
        _ => panic!("unknown garbage {g}"),
    }
    true
}

fn conflicting(a: &str, b: &str) -> bool {
    a.starts_with("referenced-blob") && b.starts_with("referenced-blob")
}

pub fn subsets(max: usize) -> Vec<Vec<&'static str>> {
    fn rec(start: usize, cur: &mut Vec<usize>, max: usize, out: &mut Vec<Vec<&'static str>>) {
        let s: Vec<&'static str> = cur.iter().map(|&i| MENU[i]).collect();
        if !s.iter().enumerate().any(|(i, a)| s[i + 1..].iter().any(|b| conflicting(a, b))) {
            out.push(s);
        }
        if cur.len() == max {
            return;
        }
        for i in start..MENU.len() {
            cur.push(i);
            rec(i + 1, cur, max, out);
            cur.pop();
        }
    }
    let mut out = Vec::new();
    rec(0, &mut Vec::new(), max, &mut out);
    out
}

pub fn check_planted<K: HKey>(base: &Image, m: &Model<K>, cfg: &Cfg, garbage: &[&str], verify: bool, universe: &[u8]) -> Vec<(String, String)> {
    let mut out = Vec::new();
    let mut im = base.clone();
    for g in garbage {
        if !plant(&mut im, m, g) {
            return out; // not applicable
        }
    }
    let conf = Config { verify_blob_integrity: verify, ..cfg.config() };
    let want = expected_orphans(&im, m, verify);
    // --- copy 1: scan + delete_orphans
    let dir = util::fresh_dir("plant");
    im.materialize(&dir);
    match real::open_recover::<K>(&dir, &conf) {
        Err(e) => out.push(("open-with-recover-failed".into(), e)),
        Ok((cas, None)) => {
            drop(cas);
            out.push(("no-stats".into(), "scan enabled but no OrphanStats returned".into()))
        }
        Ok((cas, Some(stats))) => {
            let got = reported_orphans(&stats, &dir);
            for i in 0..5 {
                if want[i] != got[i] {
                    out.push((format!("scan-{}", ORPHAN_NAMES[i]), format!("{} reported {:?}, independent comparison {:?}", ORPHAN_NAMES[i], got[i], want[i])));
                }
            }
            // index must be the model's regardless of garbage
            let keys: Vec<K> = cas.read_index_state().iter().map(|(k, _)| k.clone()).collect();
            if keys.iter().ne(m.map.keys()) {
                out.push(("index-changed".into(), format!("index keys {keys:?} differ from model")));
            }
            match stats.delete_orphans() {
                Err(e) => out.push(("delete-orphans-failed".into(), util::err_chain(&e))),
                Ok(rr) => {
                    if !rr.errors.is_empty() {
                        out.push(("delete-orphans-errors".into(), format!("{:?}", rr.errors)));
                    }
                    if rr.orphans_deleted != want[0].len() || rr.invalid_files_removed != want[1].len() || rr.staging_files_removed != want[4].len() {
                        out.push(("delete-orphans-counts".into(), format!("deleted {} orphans / {} invalid / {} staging (skipped {}), expected {} / {} / {}", rr.orphans_deleted, rr.invalid_files_removed, rr.staging_files_removed, rr.orphans_skipped, want[0].len(), want[1].len(), want[4].len())));
                    }
                    let after = Image::load(&dir);
                    let left: BTreeSet<String> = after.files_under("cas").keys().cloned().collect();
                    // exactly the referenced blobs that were present before survive (intact or not)
                    let walk = ondisk::walk_cas(&im);
                    let expect: BTreeSet<String> = m.blobs().keys().filter(|h| walk.blobs.contains_key(*h)).map(|h| ondisk::path_of_hash(h)).collect();
                    if left != expect {
                        out.push(("cleanup-not-exact".into(), format!("after delete_orphans cas/ holds {:?}, expected exactly the referenced blobs {:?}", left, expect)));
                    }
                    for (p, d) in after.files_under("cas") {
                        if im.files.get(&format!("cas/{p}")) != Some(d) {
                            out.push(("cleanup-modified-blob".into(), format!("cas/{p} changed during clean-up")));
                        }
                    }
                    if !after.files_under("staging").is_empty() {
                        out.push(("cleanup-staging-left".into(), format!("staging/ still holds {:?}", after.files_under("staging").keys().collect::<Vec<_>>())));
                    }
                }
            }
            drop(stats);
            // reads of intact keys still work
            let damaged = garbage.iter().any(|g| g.starts_with("referenced-"));
            if !damaged {
                let mut f = Vec::new();
                real::check_reads(&cas, m, universe, &mut f);
                if let Some(x) = f.first() {
                    out.push((format!("reads-after-cleanup/{}", x.oracle), x.detail.clone()));
                }
            }
        }
    }
    util::rm_rf(&dir);
    // --- copy 2: delete_orphan on a referenced and on an orphaned hash, then quarantine
    if out.is_empty() && verify {
        let dir = util::fresh_dir("plant");
        let qdir = util::fresh_dir("quar");
        im.materialize(&dir);
        if let Ok((cas, Some(stats))) = real::open_recover::<K>(&dir, &conf) {
            let walk = ondisk::walk_cas(&im);
            if let Some(h) = m.blobs().keys().find(|h| walk.blobs.contains_key(*h)) {
                match stats.delete_orphan(&BlobHash(*h)) {
                    Ok(false) => {}
                    other => out.push(("delete-orphan-referenced".into(), format!("delete_orphan(referenced {}) = {other:?}", hex(&h[..4])))),
                }
                if !dir.join("cas").join(ondisk::path_of_hash(h)).exists() {
                    out.push(("delete-orphan-removed-live-blob".into(), format!("referenced blob {} was removed", hex(&h[..4]))));
                }
            }
            let mut orphans: Vec<String> = want[0].iter().cloned().collect();
            if let Some(first) = orphans.first().cloned() {
                let hb: [u8; 32] = (0..32).map(|i| u8::from_str_radix(&first[2 * i..2 * i + 2], 16).unwrap()).collect::<Vec<_>>().try_into().unwrap();
                match stats.delete_orphan(&BlobHash(hb)) {
                    Ok(true) => {
                        orphans.remove(0);
                    }
                    other => out.push(("delete-orphan".into(), format!("delete_orphan({}) = {other:?}, expected Ok(true)", &first[..8]))),
                }
            }
            match stats.quarantine_orphans(&qdir) {
                Err(e) => out.push(("quarantine-failed".into(), util::err_chain(&e))),
                Ok(rr) => {
                    if rr.orphans_quarantined != orphans.len() || !rr.errors.is_empty() {
                        out.push(("quarantine-counts".into(), format!("quarantined {} (errors {:?}), expected {}", rr.orphans_quarantined, rr.errors, orphans.len())));
                    }
                    let q = Image::load(&qdir);
                    let names: BTreeSet<String> = q.files.keys().cloned().collect();
                    let expect: BTreeSet<String> = orphans.iter().cloned().collect();
                    if names != expect {
                        out.push(("quarantine-set".into(), format!("quarantine dir holds {names:?}, expected {expect:?}")));
                    }
                    for (name, data) in &q.files {
                        let src = format!("cas/{}/{}/{}", &name[0..2], &name[2..4], &name[4..]);
                        if im.files.get(&src) != Some(data) {
                            out.push(("quarantine-content".into(), format!("quarantined {name} differs from the original file")));
                        }
                    }
                    let after = Image::load(&dir);
                    for o in &orphans {
                        let p = format!("cas/{}/{}/{}", &o[0..2], &o[2..4], &o[4..]);
                        if after.files.contains_key(&p) {
                            out.push(("quarantine-left-orphan".into(), format!("{p} still in cas/ after quarantine")));
                        }
                    }
                    for h in m.blobs().keys().filter(|h| walk.blobs.contains_key(*h)) {
                        if !after.files.contains_key(&format!("cas/{}", ondisk::path_of_hash(h))) {
                            out.push(("quarantine-moved-live-blob".into(), format!("referenced blob {} disappeared", hex(&h[..4]))));
                        }
                    }
                }
            }
            drop(stats);
            drop(cas);
        }
        util::rm_rf(&dir);
        util::rm_rf(&qdir);
    }
    out
}

/// A put of an ORPHAN's content fails at each of its mutating calls in turn (EIO, shim); clean-up run afterwards by the
/// same live `OrphanStats` must delete the orphan iff the failed put left it unreferenced (nothing is in flight any more),
/// and must keep it iff the put got far enough to reference it.
pub fn fault_then_cleanup(res: &mut WorkerResult) -> Vec<Violation> {
    use crate::shim::{self, Phase};
    use std::sync::Arc;
    use std::sync::atomic::{AtomicU64, Ordering};
    let mut vs = Vec::new();
    let cfg = Cfg { n: 2, async_mode: false };
    let base = {
        let dir = util::fresh_dir("fcsrc");
        let cas = real::open_cas::<String>(&dir, &cfg.config()).expect("open");
        real::put_chunks(&cas, "a".to_string(), &[b"xx"], true).expect("put");
        drop(cas);
        let mut im = Image::load(&dir);
        util::rm_rf(&dir);
        let y = b"yyy".to_vec();
        let p = format!("cas/{}", ondisk::path_of_hash(&b3(&y)));
        let parts: Vec<&str> = p.split('/').collect();
        for i in 1..parts.len() {
            im.dirs.insert(parts[..i].join("/"));
        }
        im.files.insert(p, y);
        im
    };
    let y_rel = ondisk::path_of_hash(&b3(b"yyy"));
    let mut k = 0u64;
    let mut total = u64::MAX;
    while k <= total.min(80) {
        let dir = util::fresh_dir("fc");
        base.materialize(&dir);
        let Ok((cas, Some(stats))) = real::open_recover::<String>(&dir, &cfg.config()) else {
            vs.push(Violation::new(&["C08"], "fault-cleanup-setup", "open_with_recover failed".into()));
            break;
        };
        let cnt = Arc::new(AtomicU64::new(0));
        let c2 = cnt.clone();
        let kk = k;
        shim::arm(&dir, Arc::new(move |ev, ph| {
            if let Phase::Pre = ph {
                if ev.mutating && c2.fetch_add(1, Ordering::SeqCst) + 1 == kk {
                    return libc::EIO;
                }
            }
            0
        }));
        shim::participate(true);
        let r = real::put_chunks(&cas, "b".to_string(), &[b"yyy"], true);
        shim::participate(false);
        shim::disarm();
        if k == 0 {
            total = cnt.load(Ordering::SeqCst);
        }
        res.count("cases", 1);
        let referenced = cas.read_index_state().contains_key(&"b".to_string());
        let rr = stats.delete_orphans();
        let still = dir.join("cas").join(&y_rel).exists();
        let desc = format!("orphan Y; put b=Y with mutating call #{k} failing -> {:?}; key b {}; delete_orphans -> {:?}; blob {}", r.as_ref().map(|_| ()).map_err(|e| e.chars().take(60).collect::<String>()), if referenced { "present" } else { "absent" }, rr.as_ref().map(|x| (x.orphans_deleted, x.orphans_skipped)).map_err(|_| ()), if still { "still there" } else { "gone" });
        if referenced && !still {
            let mut v = Violation::new(&["C08"], "cleanup-removed-referenced-blob", desc.clone());
            v.replay = json!({"engine": "plant", "kind": "fault-then-cleanup"});
            vs.push(v);
        }
        if !referenced && still {
            let mut v = Violation::new(&["C08"], "cleanup-after-failed-put-incomplete", format!("{desc}: the orphan is unreferenced and no commit is in flight, yet clean-up did not remove it"));
            v.replay = json!({"engine": "plant", "kind": "fault-then-cleanup"});
            vs.push(v);
        }
        drop(stats);
        drop(cas);
        util::rm_rf(&dir);
        if vs.len() > 2 {
            break;
        }
        k += 1;
    }
    vs
}

pub fn case_json<K: HKey>(cfg: &Cfg, opsq: &[Op], garbage: &[&str], verify: bool) -> Value {
    json!({"engine": "plant", "key": K::NAME, "cfg": cfg, "ops": opsq, "garbage": garbage, "verify": verify, "text": ops::show_seq::<K>(opsq)})
}

pub fn run_store<K: HKey>(cfg: &Cfg, opsq: &[Op], subsets: &[Vec<&'static str>], only_verify: Option<bool>, res: &mut WorkerResult) -> Vec<Violation> {
    let mut vs = Vec::new();
    let dir = util::fresh_dir("psrc");
    let mut m = Model::<K>::default();
    let mut st = Store::<K>::open(&dir, cfg.config()).expect("open");
    for op in opsq {
        st.apply(op).expect("op");
        m.apply(op);
    }
    st.close();
    let base = Image::load(&dir);
    util::rm_rf(&dir);
    let mut universe = crate::seq::universe_of(opsq);
    if universe.is_empty() {
        universe.push(0);
    }
    res.count("stores", 1);
    for g in subsets {
        for verify in [false, true] {
            if only_verify.map_or(false, |v| v != verify) {
                continue;
            }
            res.count("cases", 1);
            res.state(&format!("{}|{:?}|{verify}", m.canon(), g));
            for (oracle, detail) in check_planted::<K>(&base, &m, cfg, g, verify, &universe) {
                let mut v = Violation::new(&["C08"], &oracle, format!("[{} {}] store after `{}` with planted {:?}, verify_blob_integrity={verify}: {detail}", K::NAME, cfg.show(), ops::show_seq::<K>(opsq), g));
                v.sig = format!("{oracle}|{}", g.join("+"));
                v.replay = case_json::<K>(cfg, opsq, g, verify);
                vs.push(v);
            }
        }
    }
    vs
}

pub fn run(tier: &str, slice: (u64, u64), seed: u64) -> WorkerResult {
    use crate::keys::*;
    let mut res = WorkerResult::new("plant");
    let alpha = vec![Op::Put { k: 0, c: C_X, ch: 0 }, Op::Put { k: 1, c: C_X, ch: 0 }, Op::Put { k: 0, c: C_Y, ch: 0 }, Op::Remove { k: 0 }, Op::Put { k: 1, c: C_E, ch: 0 }];
    let (depth, max) = if tier == "quick" { (2, 2) } else { (3, 3) };
    let subs = subsets(max);
    let mut j = 0u64;
    for n in [10_000u64, 2] {
        for d in 0..=depth {
            for i in 0..ops::seq_count(&alpha, d) {
                j += 1;
                if (j + seed) % slice.1 != slice.0 {
                    continue;
                }
                let cfg = Cfg { n, async_mode: false };
                let opsq = ops::seq_of(&alpha, d, i);
                for v in run_store::<String>(&cfg, &opsq, &subs, None, &mut res) {
                    res.violate(v);
                }
                if res.samples.len() < 2 {
                    res.sample(case_json::<String>(&cfg, &opsq, &subs[subs.len() / 2], true));
                }
            }
        }
    }
    if slice.0 == slice.1 - 1 && crate::shim::present() {
        for v in fault_then_cleanup(&mut res) {
            res.violate(v);
        }
        res.completed.push("a put of an orphan's content failing at each of its mutating calls, then delete_orphans by the live OrphanStats: the orphan is removed iff it stayed unreferenced".into());
    }
    if slice.0 == 0 {
        res.completed.push(format!("every closed store of every history of depth <= {depth} over {} symbols (N in {{10000,2}}) x every subset of size <= {max} of the {}-item garbage menu ({} subsets) x verify_blob_integrity on/off: scan sets, delete_orphans, delete_orphan, quarantine_orphans", alpha.len(), MENU.len(), subs.len()));
    }
    res
}

pub fn replay(case: &Value) -> Vec<Violation> {
    if case["kind"].as_str() == Some("fault-then-cleanup") {
        let mut res = WorkerResult::new("plant");
        return fault_then_cleanup(&mut res);
    }
    let cfg: Cfg = serde_json::from_value(case["cfg"].clone()).expect("cfg");
    let opsq: Vec<Op> = serde_json::from_value(case["ops"].clone()).expect("ops");
    let g: Vec<String> = serde_json::from_value(case["garbage"].clone()).expect("garbage");
    let gs: Vec<&'static str> = g.iter().map(|x| *MENU.iter().find(|m| **m == x.as_str()).expect("menu item")).collect();
    let verify = case["verify"].as_bool().unwrap_or(false);
    let mut res = WorkerResult::new("plant");
    run_store::<String>(&cfg, &opsq, &[gs], Some(verify), &mut res)
}
