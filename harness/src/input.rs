//! INPUT — exhaustive small-scope input sweeps for the codecs (C16), range reads (C17) and content
//! identity / path bijection (C18). Every sweep runs in a child process so that an abort (allocation
//! failure, stack overflow) or an allocation-guard hit is a finding, not a dead checker.

use crate::alloc;
use crate::ondisk;
use crate::real;
use crate::report::{Violation, WorkerResult};
use crate::util::{self, b3, hex};
use cassadilia::verif::codec;
use cassadilia::{BlobHash, Cas, Config, IndexStateItem, KeyBytes, WalOp, WalOpRaw};
use serde_json::{Value, json};
use std::collections::BTreeMap;
use std::num::NonZeroU64;
use std::path::{Path, PathBuf};

type Finding = (&'static str, String, String); // (property, oracle, detail)

pub struct Ctx {
    dir: PathBuf,
    cas: Option<Cas<String>>,
    have_len: std::collections::BTreeSet<usize>,
    tier: String,
}

impl Ctx {
    fn new(tier: &str) -> Ctx {
        Ctx { dir: util::fresh_dir("inp"), cas: None, have_len: Default::default(), tier: tier.into() }
    }
    fn cas(&mut self) -> &Cas<String> {
        if self.cas.is_none() {
            self.cas = Some(real::open_cas::<String>(&self.dir, &Config::default()).expect("open input store"));
        }
        self.cas.as_ref().unwrap()
    }
}

fn pattern(len: usize) -> Vec<u8> {
    (0..len).map(|i| ((i * 131 + 17) % 253) as u8).collect()
}

// ---------------------------------------------------------------- enumeration helpers

fn strings_upto(alpha: &[u8], maxlen: usize, chunk: u64, nchunks: u64, f: &mut dyn FnMut(&[u8])) {
    let mut idx = 0u64;
    for len in 0..=maxlen {
        let total = (alpha.len() as u64).pow(len as u32);
        let mut buf = vec![0u8; len];
        for i in 0..total {
            idx += 1;
            if idx % nchunks != chunk {
                continue;
            }
            let mut x = i;
            for j in (0..len).rev() {
                buf[j] = alpha[(x % alpha.len() as u64) as usize];
                x /= alpha.len() as u64;
            }
            f(&buf);
        }
    }
}

fn mutations(valid: &[u8], values: &[u8], f: &mut dyn FnMut(&[u8])) {
    for cut in 0..valid.len() {
        f(&valid[..cut]);
    }
    let mut buf = valid.to_vec();
    for pos in 0..valid.len() {
        for &v in values {
            let x = if v == 0 { 0 } else { valid[pos] ^ v };
            if x != valid[pos] {
                buf[pos] = x;
                f(&buf);
            }
        }
        buf[pos] = valid[pos];
    }
    for pos in 0..=valid.len() {
        for &v in &[0u8, 0xff] {
            let mut b = valid[..pos].to_vec();
            b.push(v);
            b.extend_from_slice(&valid[pos..]);
            f(&b);
        }
    }
}

fn sub_values(tier: &str) -> Vec<u8> {
    if tier == "quick" { vec![0x01, 0x80, 0xff, 0x00] } else { (0u16..=255).map(|v| v as u8).collect() }
}

fn key_bytes_set() -> Vec<Vec<u8>> {
    // all byte strings of length <= 2 over {00,'a',C3,A9,FF} plus a few of length 3
    let mut v = Vec::new();
    strings_upto(&[0x00, b'a', 0xC3, 0xA9, 0xFF], 2, 0, 1, &mut |s| v.push(s.to_vec()));
    v.push(vec![b'a', 0xC3, 0xA9]);
    v.push(vec![0xFF, 0xFF, 0xFF]);
    v
}

fn hashes() -> Vec<[u8; 32]> {
    let mut p = [0u8; 32];
    for (i, b) in p.iter_mut().enumerate() {
        *b = (i * 7 + 1) as u8;
    }
    vec![[0u8; 32], [0xff; 32], p, b3(b"x")]
}

fn valid_op_encodings() -> Vec<(WalOpRaw, Vec<u8>)> {
    let keys = key_bytes_set();
    let mut v = Vec::new();
    for k in &keys {
        for h in hashes().iter().take(3) {
            for size in [0u64, 1, 1 << 32, u64::MAX] {
                let op = WalOpRaw::Put { key_bytes: k.clone(), hash: BlobHash(*h), size };
                let enc = codec::serialize_wal_op_raw(&op).expect("serialize");
                v.push((op, enc));
            }
        }
    }
    let small: Vec<Vec<u8>> = keys.iter().filter(|k| k.len() <= 1).cloned().collect();
    let mut lists: Vec<Vec<Vec<u8>>> = vec![vec![]];
    for a in &small {
        lists.push(vec![a.clone()]);
        for b in &small {
            lists.push(vec![a.clone(), b.clone()]);
            for c in small.iter().take(3) {
                lists.push(vec![a.clone(), b.clone(), c.clone()]);
            }
        }
    }
    lists.push(vec![vec![b'k'; 300], vec![], vec![0xff; 5]]);
    for l in lists {
        let op = WalOpRaw::Remove { keys_bytes: l };
        let enc = codec::serialize_wal_op_raw(&op).expect("serialize");
        v.push((op, enc));
    }
    v
}

fn valid_snapshots() -> Vec<(BTreeMap<Vec<u8>, IndexStateItem>, Option<NonZeroU64>, Vec<u8>)> {
    let keys: Vec<Vec<u8>> = vec![vec![], vec![b'a'], vec![0xff, 0x00], vec![b'k'; 40]];
    let hs = hashes();
    let mut maps: Vec<BTreeMap<Vec<u8>, IndexStateItem>> = vec![BTreeMap::new()];
    for (i, a) in keys.iter().enumerate() {
        let mut m = BTreeMap::new();
        m.insert(a.clone(), IndexStateItem { blob_hash: BlobHash(hs[i % 4]), blob_size: i as u64 });
        maps.push(m.clone());
        for (j, b) in keys.iter().enumerate() {
            let mut m2 = m.clone();
            m2.insert(b.clone(), IndexStateItem { blob_hash: BlobHash(hs[j % 4]), blob_size: u64::MAX - j as u64 });
            maps.push(m2.clone());
            for c in keys.iter().take(2) {
                let mut m3 = m2.clone();
                m3.insert(c.clone(), IndexStateItem { blob_hash: BlobHash(hs[3]), blob_size: 1 << 32 });
                maps.push(m3);
            }
        }
    }
    let mut v = Vec::new();
    for m in maps {
        for ver in [None, NonZeroU64::new(1), NonZeroU64::new(1 << 32), NonZeroU64::new(u64::MAX)] {
            let enc = codec::serialize_index_state(&m, ver);
            v.push((m.clone(), ver, enc));
        }
    }
    v
}

// ---------------------------------------------------------------- single-input checks (also used by replay)

fn raw_eq(a: &WalOpRaw, b: &WalOpRaw) -> bool {
    match (a, b) {
        (WalOpRaw::Put { key_bytes: k1, hash: h1, size: s1 }, WalOpRaw::Put { key_bytes: k2, hash: h2, size: s2 }) => k1 == k2 && h1 == h2 && s1 == s2,
        (WalOpRaw::Remove { keys_bytes: a }, WalOpRaw::Remove { keys_bytes: b }) => a == b,
        _ => false,
    }
}

fn dec_limit(len: usize) -> usize {
    32 * len + 2048
}

fn check_dec_op(input: &[u8]) -> Option<Finding> {
    alloc::set_current(input);
    let (r, used) = alloc::guard(dec_limit(input.len()), || util::catch(|| codec::deserialize_wal_op_raw(input)));
    let _ = used;
    match r {
        Err(p) => Some(("C16", "decode-op-panic".into(), format!("deserialize_wal_op_raw({}) panicked: {p}", hex(input)))),
        Ok(Err(_)) => None,
        Ok(Ok(raw)) => {
            // typed conversion must be total too, and a decoded value must re-encode to a decodable form
            let r2 = util::catch(|| {
                let _ = WalOp::<String>::from_raw(raw.clone());
                let _ = WalOp::<Vec<u8>>::from_raw(raw.clone());
                let _ = WalOp::<u32>::from_raw(raw.clone());
                let _ = WalOp::<[u8; 2]>::from_raw(raw.clone());
                let enc = codec::serialize_wal_op_raw(&raw).map_err(|e| e.to_string())?;
                let back = codec::deserialize_wal_op_raw(&enc).map_err(|e| e.to_string())?;
                if raw_eq(&back, &raw) { Ok(()) } else { Err("re-encoded value decodes differently".to_string()) }
            });
            match r2 {
                Err(p) => Some(("C16", "from-raw-panic".into(), format!("conversion of decoded {} panicked: {p}", hex(input)))),
                Ok(Err(e)) => Some(("C16", "op-reencode".into(), format!("input {}: {e}", hex(input)))),
                Ok(Ok(())) => None,
            }
        }
    }
}

fn check_dec_index(input: &[u8]) -> Option<Finding> {
    alloc::set_current(input);
    let (r, _) = alloc::guard(dec_limit(input.len()), || util::catch(|| codec::deserialize_index_state(input).map(|(m, v)| (m.len(), v))));
    match r {
        Err(p) => Some(("C16", "decode-index-panic".into(), format!("deserialize_index_state({}) panicked: {p}", hex(input)))),
        Ok(_) => {
            // agreement with the independent decoder on acceptance of *complete* inputs
            None
        }
    }
}

fn check_dec_path(input: &[u8]) -> Option<Finding> {
    use std::os::unix::ffi::OsStrExt;
    alloc::set_current(input);
    let p = Path::new(std::ffi::OsStr::from_bytes(input));
    match util::catch(|| BlobHash::from_relative_path(p)) {
        Err(pn) => Some(("C16", "decode-path-panic".into(), format!("from_relative_path({:?}) panicked: {pn}", String::from_utf8_lossy(input)))),
        Ok(Ok(h)) => {
            // a path that parses must be the canonical path of that hash (bijection) …
            let canon = ondisk::path_of_hash(h.as_bytes());
            let tail_ok = String::from_utf8_lossy(input).ends_with(&canon);
            if !tail_ok {
                // … or at least decode to a hash whose canonical path parses back to the same hash
                let back = BlobHash::from_relative_path(&h.relative_path()).ok();
                if back != Some(h) {
                    return Some(("C18", "path-not-bijective".into(), format!("{:?} parses to {} whose own path does not parse back", String::from_utf8_lossy(input), h)));
                }
            }
            None
        }
        Ok(Err(_)) => None,
    }
}

fn rt_key<K: KeyBytes + PartialEq + std::fmt::Debug>(k: &K) -> Option<Finding> {
    let r = util::catch(|| {
        let b = k.to_key_bytes();
        let owned = k.to_key_bytes_owned();
        if owned.as_slice() != b.as_ref() {
            return Some(format!("to_key_bytes_owned differs from to_key_bytes for {k:?}"));
        }
        match K::from_key_bytes(b.as_ref()) {
            Some(back) if back == *k => None,
            other => Some(format!("key {k:?} encodes to {} which decodes to {other:?}", hex(b.as_ref()))),
        }
    });
    match r {
        Err(p) => Some(("C16", "key-codec-panic".into(), format!("key {k:?}: {p}"))),
        Ok(Some(d)) => Some(("C16", "key-roundtrip".into(), d)),
        Ok(None) => None,
    }
}

fn total_key<K: KeyBytes + std::fmt::Debug>(bytes: &[u8]) -> Option<Finding> {
    match util::catch(|| K::from_key_bytes(bytes).map(|k| k.to_key_bytes().as_ref().to_vec())) {
        Err(p) => Some(("C16", "key-decode-panic".into(), format!("from_key_bytes({}) panicked: {p}", hex(bytes)))),
        Ok(Some(back)) if back != bytes => Some(("C16", "key-decode-not-inverse".into(), format!("from_key_bytes({}) re-encodes to {}", hex(bytes), hex(&back)))),
        _ => None,
    }
}

fn check_range(ctx: &mut Ctx, l: usize, s: u64, e: u64) -> Option<Finding> {
    // one key, overwritten for every L: sizes recorded by an earlier value must not leak into the next one
    let key = "range-key".to_string();
    let data = pattern(l);
    if ctx.have_len.iter().next() != Some(&l) || ctx.have_len.len() != 1 {
        let ch: Vec<&[u8]> = if l == 0 { vec![] } else { vec![&data] };
        real::put_chunks(ctx.cas(), key.clone(), &ch, true).expect("put for range sweep");
        ctx.have_len.clear();
        ctx.have_len.insert(l);
    }
    let desc = format!("get_range(L={l},{s},{e})");
    alloc::set_current(desc.as_bytes());
    let cas = ctx.cas();
    let (r, _) = alloc::guard(l + 64 * 1024, || util::catch(|| cas.get_range(&key, s, e)));
    let want = real::slice(&data, s, e);
    match r {
        Err(p) => Some(("C17", "range-panic".into(), format!("{desc} panicked: {p}"))),
        Ok(Ok(None)) => Some(("C17", "range-none".into(), format!("{desc} = None for a present key"))),
        Ok(Ok(Some(got))) => {
            if s <= e {
                (got.as_ref() != want).then(|| ("C17", "range-slice".into(), format!("{desc} returned {} bytes {}, want {} bytes {}", got.len(), util::show(&got), want.len(), util::show(want))))
            } else if s < l as u64 {
                Some(("C17", "range-inverted-accepted".into(), format!("{desc} (start > end, start < L) returned Ok({} bytes), must be an error", got.len())))
            } else {
                None
            }
        }
        Ok(Err(err)) => {
            if s <= e {
                Some(("C17", "range-error".into(), format!("{desc} failed: {}", util::err_chain(&err))))
            } else {
                None
            }
        }
    }
}

fn check_size_reader(ctx: &mut Ctx, l: usize) -> Option<Finding> {
    use std::io::Read;
    let key = "range-key".to_string();
    let data = pattern(l);
    let cas = ctx.cas();
    match cas.get_size(&key) {
        Ok(Some(n)) if n == l as u64 => {}
        other => return Some(("C17", "size".into(), format!("get_size for L={l} = {other:?}"))),
    }
    let mut buf = Vec::new();
    match cas.get_reader(&key) {
        Ok(Some(mut r)) => {
            if r.read_to_end(&mut buf).is_err() || buf != data {
                return Some(("C17", "reader".into(), format!("get_reader for L={l} streamed {} bytes", buf.len())));
            }
        }
        other => return Some(("C17", "reader".into(), format!("get_reader for L={l} = {:?}", other.map(|o| o.is_some())))),
    }
    None
}

/// content + chunk lengths (0 = empty write)
fn check_chunking(ctx: &mut Ctx, content: &[u8], cuts: &[usize]) -> Option<Finding> {
    let desc = format!("content {} written as chunks {:?}", util::show(content), cuts);
    alloc::set_current(desc.as_bytes());
    let mut chunks: Vec<&[u8]> = Vec::new();
    let mut pos = 0;
    for &c in cuts {
        chunks.push(&content[pos..pos + c]);
        pos += c;
    }
    assert_eq!(pos, content.len());
    let key = "chunk".to_string();
    let dir = ctx.dir.clone();
    let cas = ctx.cas();
    if let Err(e) = real::put_chunks(cas, key.clone(), &chunks, true) {
        return Some(("C18", "put-failed".into(), format!("{desc}: {e}")));
    }
    let want_h = b3(content);
    let item = cas.read_index_state().get_item(&key);
    match item {
        Some(it) if *it.blob_hash.as_bytes() == want_h && it.blob_size == content.len() as u64 => {}
        other => return Some(("C18", "identity".into(), format!("{desc}: index item {:?}, want (blake3 {}, len {})", other.map(|i| (i.blob_hash.to_hex(), i.blob_size)), hex(&want_h), content.len()))),
    }
    let path = dir.join("cas").join(ondisk::path_of_hash(&want_h));
    match std::fs::read(&path) {
        Ok(d) if d == content => {}
        Ok(d) => return Some(("C18", "file-content".into(), format!("{desc}: file at the derived path holds {}", util::show(&d)))),
        Err(e) => return Some(("C18", "file-placement".into(), format!("{desc}: no file at cas/{}: {e}", ondisk::path_of_hash(&want_h)))),
    }
    match cas.get(&key) {
        Ok(Some(b)) if b.as_ref() == content => None,
        other => Some(("C18", "get".into(), format!("{desc}: get = {:?}", other.map(|o| o.map(|b| b.len()))))),
    }
}

fn check_pathbij(h: &[u8; 32], seen: &mut std::collections::HashMap<String, [u8; 32]>) -> Option<Finding> {
    let bh = BlobHash(*h);
    let rel = bh.relative_path();
    let rels = rel.to_string_lossy().into_owned();
    if rels != ondisk::path_of_hash(h) {
        return Some(("C18", "path-layout".into(), format!("relative_path({}) = {rels}, documented layout gives {}", hex(h), ondisk::path_of_hash(h))));
    }
    match BlobHash::from_relative_path(&rel) {
        Ok(b) if b == bh => {}
        other => return Some(("C18", "path-roundtrip".into(), format!("from_relative_path(relative_path({})) = {other:?}", hex(h)))),
    }
    let full = Path::new("/some/root/cas").join(&rel);
    match BlobHash::from_relative_path(&full) {
        Ok(b) if b == bh => {}
        other => return Some(("C18", "path-roundtrip-prefixed".into(), format!("with a directory prefix: {other:?}"))),
    }
    if let Some(prev) = seen.insert(rels.clone(), *h) {
        if prev != *h {
            return Some(("C18", "path-collision".into(), format!("hashes {} and {} share path {rels}", hex(&prev), hex(h))));
        }
    }
    None
}

fn check_open_crafted(file: &str, bytes: &[u8], n: u64) -> Option<Finding> {
    let dir = util::fresh_dir("crafted");
    std::fs::create_dir_all(&dir).unwrap();
    std::fs::write(dir.join("db_settings.json"), format!("{{\"version\":4,\"dir_tree_is_pre_created\":false,\"num_ops_per_wal\":{n}}}")).unwrap();
    std::fs::write(dir.join(file), bytes).unwrap();
    let cfg = Config { num_ops_per_wal: NonZeroU64::new(n).unwrap(), fail_on_integrity_errors: false, ..Default::default() };
    alloc::set_current(format!("{file}:{}", hex(&bytes[..bytes.len().min(200)])).as_bytes());
    let r = real::open_cas::<String>(&dir, &cfg);
    util::rm_rf(&dir);
    match r {
        Err(e) if e.starts_with("PANIC") => Some(("C16", "open-crafted-panic".into(), format!("Cas::open with {file} = {} : {e}", hex(&bytes[..bytes.len().min(120)])))),
        _ => None,
    }
}

// ---------------------------------------------------------------- sweeps

pub const SWEEPS: &[(&str, &str, u64)] = &[
    // (name, property, chunks)
    ("dec-op", "C16", 8),
    ("dec-index", "C16", 8),
    ("dec-path", "C16", 4),
    ("rt-keys", "C16", 1),
    ("rt-ops", "C16", 4),
    ("open-crafted", "C16", 4),
    ("range", "C17", 16),
    ("chunking", "C18", 2),
    ("sizes", "C18", 16),
    ("pathbij", "C18", 1),
];

fn name_static(_: &str) -> &'static str {
    "chunking"
}

fn compositions(n: usize) -> Vec<Vec<usize>> {
    if n == 0 {
        return vec![vec![]];
    }
    let mut out = Vec::new();
    for mask in 0..(1u32 << (n - 1)) {
        let mut parts = Vec::new();
        let mut cur = 1;
        for i in 0..n - 1 {
            if mask & (1 << i) != 0 {
                parts.push(cur);
                cur = 1;
            } else {
                cur += 1;
            }
        }
        parts.push(cur);
        out.push(parts);
    }
    out
}

pub fn run_sweep(name: &str, tier: &str, chunk: u64, nchunks: u64, res: &mut WorkerResult) {
    let quick = tier == "quick";
    let mut ctx = Ctx::new(tier);
    let mut n = 0u64;
    let mut report = |res: &mut WorkerResult, sweep: &str, input: Value, f: Option<Finding>| {
        res.count("cases", 1);
        if let Some((prop, oracle, detail)) = f {
            // a blob filed under a name that is not the hash of its bytes is also a C06 matter
            let props: Vec<&str> = if prop == "C18" && matches!(oracle.as_str(), "identity" | "file-content" | "file-placement") { vec![prop, "C06"] } else { vec![prop] };
            let mut v = Violation::new(&props, &oracle, detail);
            v.replay = json!({"engine": "input", "sweep": sweep, "input": input});
            res.violate(v);
        }
    };
    match name {
        "dec-op" | "dec-index" => {
            let maxlen = if quick { 9 } else { 11 };
            let f: fn(&[u8]) -> Option<Finding> = if name == "dec-op" { check_dec_op } else { check_dec_index };
            strings_upto(&[0, 1, 2, 0xff], maxlen, chunk, nchunks, &mut |s| {
                report(res, name, json!(hex(s)), f(s));
            });
            res.completed.push(format!("{name}: all byte strings of length <= {maxlen} over {{00,01,02,ff}} (chunk {chunk}/{nchunks})"));
        }
        "dec-path" => {
            let maxlen = if quick { 6 } else { 7 };
            strings_upto(&[b'0', b'a', b'A', b'/', b'.', b'g', 0xC3], maxlen, chunk, nchunks, &mut |s| {
                report(res, name, json!(hex(s)), check_dec_path(s));
            });
            if chunk == 0 {
                // every single-byte substitution / truncation / insertion of valid paths, incl. upper-case hex
                for h in hashes() {
                    let valid = ondisk::path_of_hash(&h).into_bytes();
                    mutations(&valid, &[0x20, 0x01, 0x80, 0x00], &mut |s| report(res, name, json!(hex(s)), check_dec_path(s)));
                }
            }
            if chunk == 0 {
                // the 64 hex digits of a hash cut into three components of every shape near 2/2/60, with and without a prefix
                for h in hashes() {
                    let hx = hex(&h);
                    for a in 0..=6usize {
                        for b in 0..=6usize {
                            for total in [63usize, 64, 65] {
                                if a + b > total {
                                    continue;
                                }
                                let digits: String = hx.chars().cycle().take(total).collect();
                                let pth = format!("{}/{}/{}", &digits[..a], &digits[a..a + b], &digits[a + b..]);
                                for pre in ["", "cas/", "/x/"] {
                                    let full = format!("{pre}{pth}");
                                    report(res, name, json!(hex(full.as_bytes())), check_dec_path(full.as_bytes()));
                                }
                            }
                        }
                    }
                }
            }
            res.completed.push(format!("{name}: all strings of length <= {maxlen} over {{0,a,A,/,.,g,C3}} + single-byte mutations of 4 valid paths + every 3-component shape (a,b <= 6) of 63/64/65 hex digits"));
        }
        "rt-keys" => {
            for v in 0..=u8::MAX {
                report(res, name, json!(format!("u8 {v}")), rt_key(&v));
                report(res, name, json!(format!("i8 {v}")), rt_key(&(v as i8)));
            }
            for v in 0..=u16::MAX {
                report(res, name, json!(format!("u16 {v}")), rt_key(&v));
                report(res, name, json!(format!("i16 {v}")), rt_key(&(v as i16)));
            }
            for sh in 0..128u32 {
                for d in [0i128, 1, -1] {
                    let x = (1i128 << (sh % 127)).wrapping_add(d);
                    report(res, name, json!(format!("wide {x}")), rt_key(&(x as u32)).or_else(|| rt_key(&(x as i32))).or_else(|| rt_key(&(x as u64))).or_else(|| rt_key(&(x as i64))).or_else(|| rt_key(&(x as u128))).or_else(|| rt_key(&x)));
                }
            }
            for x in [i128::MIN, i128::MAX, 0] {
                report(res, name, json!(format!("wide {x}")), rt_key(&x).or_else(|| rt_key(&(x as u128))).or_else(|| rt_key(&(x as i64))));
            }
            strings_upto(&[0x00, b'a', 0xC3, 0xA9, 0xFF], 4, 0, 1, &mut |s| {
                let f = rt_key(&s.to_vec())
                    .or_else(|| std::str::from_utf8(s).ok().and_then(|st| rt_key(&st.to_string())))
                    .or_else(|| total_key::<String>(s))
                    .or_else(|| total_key::<Vec<u8>>(s))
                    .or_else(|| total_key::<u8>(s))
                    .or_else(|| total_key::<i16>(s))
                    .or_else(|| total_key::<u32>(s))
                    .or_else(|| total_key::<u64>(s))
                    .or_else(|| total_key::<i128>(s))
                    .or_else(|| total_key::<[u8; 0]>(s))
                    .or_else(|| total_key::<[u8; 1]>(s))
                    .or_else(|| total_key::<[u8; 2]>(s))
                    .or_else(|| total_key::<[u8; 3]>(s))
                    .or_else(|| <[u8; 2]>::try_from(s).ok().and_then(|a| rt_key(&a)))
                    .or_else(|| <[u8; 3]>::try_from(s).ok().and_then(|a| rt_key(&a)));
                report(res, name, json!(hex(s)), f);
            });
            res.completed.push("rt-keys: all u8/i8/u16/i16, boundary sets (2^k, 2^k±1, MIN, MAX) of the wider integers, all String/Vec<u8>/[u8;n] keys of length <= 4 over {00,a,C3,A9,FF}".into());
        }
        "rt-ops" => {
            let subs = sub_values(tier);
            let ops = valid_op_encodings();
            for (i, (op, enc)) in ops.iter().enumerate() {
                if i as u64 % nchunks != chunk {
                    continue;
                }
                let f = match util::catch(|| codec::deserialize_wal_op_raw(enc)) {
                    Err(p) => Some(("C16", "op-roundtrip-panic".to_string(), p)),
                    Ok(Err(e)) => Some(("C16", "op-roundtrip".to_string(), format!("valid encoding rejected: {e}"))),
                    Ok(Ok(back)) => (!raw_eq(&back, op)).then(|| ("C16", "op-roundtrip".to_string(), format!("{op:?} decodes to {back:?}"))),
                };
                // typed round trip for Vec<u8> keys
                let f = f.or_else(|| match WalOp::<Vec<u8>>::from_raw(op.clone()) {
                    Ok(t) => (!raw_eq(&t.to_raw(), op)).then(|| ("C16", "walop-typed-roundtrip".to_string(), format!("{op:?}"))),
                    Err(e) => Some(("C16", "walop-typed-roundtrip".to_string(), format!("{op:?}: {e}"))),
                });
                report(res, name, json!(hex(enc)), f.map(|(p, o, d)| (p, o, d)));
                if i % 7 == 0 || !quick {
                    mutations(enc, &subs, &mut |s| report(res, "dec-op", json!(hex(s)), check_dec_op(s)));
                }
            }
            let snaps = valid_snapshots();
            for (i, (m, ver, enc)) in snaps.iter().enumerate() {
                if i as u64 % nchunks != chunk {
                    continue;
                }
                let f = match util::catch(|| codec::deserialize_index_state(enc)) {
                    Err(p) => Some(("C16", "snapshot-roundtrip-panic".to_string(), p)),
                    Ok(Err(e)) => Some(("C16", "snapshot-roundtrip".to_string(), format!("valid snapshot rejected: {e}"))),
                    Ok(Ok((back, v))) => (back != *m || v != *ver).then(|| ("C16", "snapshot-roundtrip".to_string(), format!("snapshot of {} entries version {ver:?} decodes to {} entries version {v:?}", m.len(), back.len()))),
                };
                // my independent decoder must read the crate's encoding identically
                let f = f.or_else(|| match ondisk::parse_index(enc) {
                    Ok(ix) => {
                        let same = ix.version == ver.map_or(0, |v| v.get()) && ix.entries.len() == m.len() && ix.entries.iter().all(|(k, h, s)| m.get(k).map(|it| (it.blob_hash.as_bytes() == h) && it.blob_size == *s).unwrap_or(false));
                        (!same).then(|| ("C16", "snapshot-format".to_string(), "documented format and the crate's encoding disagree".to_string()))
                    }
                    Err(e) => Some(("C16", "snapshot-format".to_string(), e)),
                });
                report(res, name, json!(hex(enc)), f);
                if i % 5 == 0 || !quick {
                    mutations(enc, &subs, &mut |s| report(res, "dec-index", json!(hex(s)), check_dec_index(s)));
                }
            }
            // snapshots of maps keyed by integers: the encoder walks keys in numeric order, which is not the byte order of
            // their little-endian encodings (255 < 256, -1 < 0); the decoder must accept exactly what the encoder writes
            if chunk == 0 {
                fn typed<KK: KeyBytes + Ord + Clone + std::fmt::Debug>(keys: &[KK]) -> Option<String> {
                    for mask in 1u32..(1 << keys.len()) {
                        let mut m = BTreeMap::new();
                        for (i, k) in keys.iter().enumerate() {
                            if mask & (1 << i) != 0 {
                                m.insert(k.clone(), IndexStateItem { blob_hash: BlobHash(b3(&[i as u8])), blob_size: i as u64 });
                            }
                        }
                        let enc = codec::serialize_index_state(&m, NonZeroU64::new(7));
                        match util::catch(|| codec::deserialize_index_state(&enc)) {
                            Err(p) => return Some(format!("{:?}: decoder panicked: {p}", m.keys().collect::<Vec<_>>())),
                            Ok(Err(e)) => return Some(format!("snapshot of keys {:?} is rejected by the decoder: {e}", m.keys().collect::<Vec<_>>())),
                            Ok(Ok((back, v))) => {
                                let want: BTreeMap<Vec<u8>, IndexStateItem> = m.iter().map(|(k, it)| (k.to_key_bytes().as_ref().to_vec(), *it)).collect();
                                if back != want || v != NonZeroU64::new(7) {
                                    return Some(format!("snapshot of keys {:?} decodes to {} entries", m.keys().collect::<Vec<_>>(), back.len()));
                                }
                            }
                        }
                    }
                    None
                }
                let f = typed::<u32>(&[0, 1, 255, 256, 65_536, u32::MAX])
                    .or_else(|| typed::<i16>(&[-1, 0, 1, 255, 256, i16::MIN, i16::MAX]))
                    .or_else(|| typed::<u64>(&[255, 256, 1 << 32, u64::MAX]))
                    .or_else(|| typed::<i128>(&[-1, 0, 1 << 64, i128::MIN]))
                    .or_else(|| typed::<[u8; 2]>(&[[0, 1], [1, 0], [255, 255]]))
                    .or_else(|| typed::<String>(&["b".into(), "a".into(), "".into(), "ab".into()]));
                report(res, name, json!("typed-snapshots"), f.map(|d| ("C16", "snapshot-typed-roundtrip".to_string(), d)));
            }
            res.completed.push(format!("rt-ops: {} op encodings and {} snapshots round-tripped; every truncation, substitution ({} values) and insertion of {} of them decoded under the allocation guard", ops.len(), snaps.len(), subs.len(), if quick { "a 1/7 resp. 1/5 subset" } else { "all" }));
        }
        "open-crafted" => {
            // a real 2-record segment and a real 2-entry index, produced by the store itself
            let dir = util::fresh_dir("seed");
            {
                let cfg = Config { num_ops_per_wal: NonZeroU64::new(10_000).unwrap(), ..Default::default() };
                let cas = real::open_cas::<String>(&dir, &cfg).unwrap();
                real::put_chunks(&cas, "a".into(), &[b"xx"], true).unwrap();
                real::put_chunks(&cas, "b".into(), &[b"yyy"], true).unwrap();
                cas.remove_range("a".to_string()..="b".to_string()).unwrap();
                real::put_chunks(&cas, "a".into(), &[b"xx"], true).unwrap();
            }
            let seg = std::fs::read(dir.join("0_index.wal")).unwrap();
            {
                let cfg = Config { num_ops_per_wal: NonZeroU64::new(10_000).unwrap(), ..Default::default() };
                let cas = real::open_cas::<String>(&dir, &cfg).unwrap();
                real::put_chunks(&cas, "b".into(), &[b"yyy"], true).unwrap();
                cas.checkpoint().unwrap();
            }
            let idx = std::fs::read(dir.join("index")).unwrap();
            util::rm_rf(&dir);
            let subs: Vec<u8> = if quick { vec![0x01, 0xff, 0x00] } else { vec![0x01, 0x80, 0xff, 0x00, 0x7f] };
            for (file, bytes) in [("0_index.wal", &seg), ("index", &idx)] {
                mutations(bytes, &subs, &mut |s| {
                    n += 1;
                    if n % nchunks == chunk {
                        report(res, name, json!({"file": file, "bytes": hex(s)}), check_open_crafted(file, s, 10_000));
                    }
                });
            }
            if chunk == 0 {
                strings_upto(&[0, 1, 0xff], if quick { 5 } else { 7 }, 0, 1, &mut |s| {
                    report(res, name, json!({"file": "index", "bytes": hex(s)}), check_open_crafted("index", s, 10_000));
                    report(res, name, json!({"file": "0_index.wal", "bytes": hex(s)}), check_open_crafted("0_index.wal", s, 10_000));
                });
            }
            res.completed.push(format!("open-crafted: every truncation, substitution ({} values) and insertion of a real {}-byte segment and a real {}-byte snapshot, plus all short byte strings, through Cas::open", subs.len(), seg.len(), idx.len()));
        }
        "range" => {
            let big: [u64; 6] = [1 << 32, (1 << 32) + 1, 1 << 63, (1 << 63) + 1, u64::MAX - 1, u64::MAX];
            let lens: Vec<usize> = if quick { vec![0, 1, 2, 3, 4, 5, 6, 8191, 8192, 8193, 20000, 65537, 1024 * 1024 + 1, 2 * 1024 * 1024 + 3] } else { (0..=12).chain([4095, 4096, 4097, 8191, 8192, 8193, 16384, 20000, 65537, 131073, 1024 * 1024 - 1, 1024 * 1024, 1024 * 1024 + 1, 2 * 1024 * 1024 + 3, 4 * 1024 * 1024 + 1]).collect() };
            for (li, &l) in lens.iter().enumerate() {
                if li as u64 % nchunks != chunk {
                    continue;
                }
                let mut pts: Vec<u64> = if l <= 12 {
                    (0..=(l as u64 + 2)).collect()
                } else {
                    let l64 = l as u64;
                    let mut p = vec![0, 1, 2, 4095, 4096, 4097, 8191, 8192, 8193, 65536, 65537, 1 << 20, (1 << 20) + 1, l64 / 2, l64 - 2, l64 - 1, l64, l64 + 1, l64 + 2];
                    p.retain(|x| *x <= l64 + 2);
                    p
                };
                pts.extend_from_slice(&big);
                pts.sort();
                pts.dedup();
                // the key held a longer and a shorter value before: a size recorded for an earlier value must not leak
                let _ = check_range(&mut ctx, l / 2, 0, 1);
                let _ = check_range(&mut ctx, l + 17, 0, 1);
                // (the key now holds l+17 bytes, so the value of length l is about to be written afresh)
                // and a stale file with other bytes sits at the path the value is going to get (left by an earlier crash)
                if l <= 20_000 {
                    let p = ctx.dir.join("cas").join(ondisk::path_of_hash(&b3(&pattern(l))));
                    std::fs::create_dir_all(p.parent().unwrap()).unwrap();
                    std::fs::write(&p, b"stale").unwrap();
                }
                for &s in &pts {
                    for &e in &pts {
                        let f = check_range(&mut ctx, l, s, e);
                        report(res, name, json!({"L": l, "start": s, "end": e}), f);
                    }
                }
                let f = check_size_reader(&mut ctx, l);
                report(res, name, json!({"L": l, "start": 0, "end": 0, "size_reader": true}), f);
                res.state(&format!("L{l}"));
            }
            // shrinking overwrites: revisit a few lengths in reverse order on the same key
            let mine: Vec<usize> = lens.iter().enumerate().filter(|(li, _)| *li as u64 % nchunks == chunk).map(|(_, l)| *l).collect();
            for &l in mine.iter().rev() {
                for (s, e) in [(0u64, l as u64), (0, l as u64 + 2), (1, u64::MAX), (l as u64, l as u64 + 1)] {
                    let f = check_range(&mut ctx, l, s, e);
                    report(res, name, json!({"L": l, "start": s, "end": e, "after_longer": true}), f);
                }
                let f = check_size_reader(&mut ctx, l);
                report(res, name, json!({"L": l, "start": 0, "end": 0, "size_reader": true, "after_longer": true}), f);
            }
            res.completed.push(format!("range: L in {lens:?}; all (start,end) in ({{0..L+2}} for L<=12, boundary points otherwise) ∪ {{2^32,2^32+1,2^63,2^63+1,2^64-2,2^64-1}} squared"));
        }
        "chunking" => {
            let maxn = if quick { 5 } else { 7 };
            for nbits in 0..=maxn {
                for bits in 0..(1u32 << nbits) {
                    if (bits as u64 + nbits as u64) % nchunks != chunk {
                        continue;
                    }
                    let content: Vec<u8> = (0..nbits).map(|i| ((bits >> i) & 1) as u8).collect();
                    for comp in compositions(nbits) {
                        let f = check_chunking(&mut ctx, &content, &comp);
                        report(res, name, json!({"content": hex(&content), "chunks": comp}), f);
                        for pos in 0..=comp.len() {
                            let mut c2 = comp.clone();
                            c2.insert(pos, 0);
                            let f = check_chunking(&mut ctx, &content, &c2);
                            report(res, name, json!({"content": hex(&content), "chunks": c2}), f);
                        }
                    }
                }
            }
            if chunk == 0 {
                let big = pattern(20_000);
                for cut in [1usize, 4096, 8191, 8192, 8193, 16384, 19_999] {
                    for extra in [vec![cut, big.len() - cut], vec![cut, 0, big.len() - cut], vec![0, cut, big.len() - cut, 0]] {
                        let f = check_chunking(&mut ctx, &big, &extra);
                        report(res, name, json!({"content": "pattern20000", "chunks": extra}), f);
                    }
                }
                let f = check_chunking(&mut ctx, &big, &[8192, 8192, 3616]);
                report(res, name, json!({"content": "pattern20000", "chunks": [8192, 8192, 3616]}), f);
                // sizes beyond plausible "large blob / large write" thresholds (16 KiB, 64 KiB, 128 KiB, 1 MiB):
                // small-then-large, large-then-small, streamed in 4 KiB pieces, halves
                for len in [65 * 1024 + 3, 129 * 1024 + 5, 1024 * 1024 + 7] {
                    let data = pattern(len);
                    let name = format!("pattern{len}");
                    let mut plans: Vec<Vec<usize>> = vec![vec![len], vec![5, len - 5], vec![len - 5, 5], vec![7, len - 12, 5], vec![len / 2, len - len / 2]];
                    let mut pieces = vec![4096usize; len / 4096];
                    pieces.push(len % 4096);
                    plans.push(pieces);
                    let mut p16 = vec![16 * 1024usize; len / (16 * 1024)];
                    p16.insert(0, len % (16 * 1024));
                    plans.push(p16);
                    for pl in plans {
                        let f = check_chunking(&mut ctx, &data, &pl);
                        report(res, name_static(&name), json!({"content": name, "chunks": pl}), f);
                    }
                }
                // a stale file with other bytes already sits at the content's path (e.g. left by an earlier crash): the put must still
                // end with the content at that path
                for len in [0usize, 3, 9000] {
                    let data = pattern(len + 40_000)[40_000 - 7..40_000 - 7 + len].to_vec();
                    let rel = ondisk::path_of_hash(&b3(&data));
                    let p = ctx.dir.join("cas").join(&rel);
                    let _ = ctx.cas();
                    std::fs::create_dir_all(p.parent().unwrap()).unwrap();
                    std::fs::write(&p, b"torn").unwrap();
                    let cuts: Vec<usize> = if len == 0 { vec![] } else { vec![len] };
                    let f = check_chunking(&mut ctx, &data, &cuts);
                    report(res, "chunking", json!({"content": format!("stale{len}"), "chunks": cuts, "stale_file_planted": true}), f);
                }
                if !quick {
                    // a single write call larger than the kernel's per-call limit (0x7ffff000 bytes): the write is short and must be continued correctly
                    let len = (1usize << 31) + 12 * 1024;
                    let data = pattern(len);
                    let f = check_chunking(&mut ctx, &data, &[len]);
                    report(res, "chunking", json!({"content": format!("pattern{len}"), "chunks": [len]}), f);
                    drop(data);
                    // free the space again
                    let _ = check_chunking(&mut ctx, b"x", &[1]);
                }
                let ones = vec![1usize; 300];
                let f = check_chunking(&mut ctx, &big[..300], &ones);
                report(res, name, json!({"content": "pattern300", "chunks": "300x1"}), f);
            }
            res.completed.push(format!("chunking: all contents of length <= {maxn} over {{0,1}} x all compositions x an empty write inserted at every position; 20000-byte content split at 1,4096,8191,8192,8193,16384,19999"));
        }
        "sizes" => {
            // the size ladder: every power of two up to 16 MiB (thorough: 128 MiB) and its two neighbours, 3 * 2^e, 5 and 10 MiB,
            // powers of ten - sizes at which a threshold in the write path would sit - each written in one call, in four
            // near-equal calls, and in 1 MiB (<= 1 MiB: 4 KiB) pieces
            let top = if quick { 24 } else { 27 };
            let mut sizes: Vec<usize> = Vec::new();
            for e in 0..=top {
                for d in [-1i64, 0, 1] {
                    let v = (1i64 << e) + d;
                    if v >= 0 {
                        sizes.push(v as usize);
                    }
                }
                if (10..=top - 2).contains(&e) {
                    sizes.push(3usize << e);
                }
            }
            sizes.extend([5usize << 20, 10 << 20, 1_000, 10_000, 100_000, 1_000_000, 10_000_000]);
            sizes.sort();
            sizes.dedup();
            let total = sizes.len();
            for (i, len) in sizes.into_iter().enumerate() {
                if i as u64 % nchunks != chunk {
                    continue;
                }
                let data = pattern(len);
                let mut plans: Vec<Vec<usize>> = vec![if len == 0 { vec![] } else { vec![len] }];
                if len >= 4 {
                    let q = len / 4;
                    plans.push(vec![q, q, q, len - 3 * q]);
                }
                if len > (1 << 20) {
                    let mut v = vec![1usize << 20; len >> 20];
                    if len % (1 << 20) != 0 {
                        v.push(len % (1 << 20));
                    }
                    plans.push(v);
                } else if len > 8192 {
                    let mut v = vec![4096usize; len / 4096];
                    if len % 4096 != 0 {
                        v.push(len % 4096);
                    }
                    plans.push(v);
                }
                for pl in plans {
                    let f = check_chunking(&mut ctx, &data, &pl);
                    let shown: Value = if pl.len() > 8 { json!(format!("{} x {} (+ remainder)", pl.len(), pl[0])) } else { json!(pl) };
                    report(res, "sizes", json!({"len": len, "chunks": shown, "plan": if pl.len() > 8 { json!(pl[0]) } else { json!(null) }}), f);
                }
            }
            if chunk == 0 {
                res.completed.push(format!("sizes: {total} lengths (2^e and 2^e +- 1 for e <= {top}, 3 * 2^e, 5 and 10 MiB, powers of ten) x (one write, four near-equal writes, 1 MiB or 4 KiB pieces)"));
            }
        }
        "pathbij" => {
            let mut seen = std::collections::HashMap::new();
            for base in hashes() {
                for pos in 0..32 {
                    for val in 0..=255u8 {
                        let mut h = base;
                        h[pos] = val;
                        let f = check_pathbij(&h, &mut seen);
                        report(res, name, json!(hex(&h)), f);
                    }
                }
            }
            res.state(&format!("paths{}", seen.len()));
            res.count("distinct_paths", seen.len() as u64);
            res.completed.push("pathbij: 4 base hashes x 32 byte positions x 256 values: layout, round trip (bare and with directory prefix), pairwise distinct".into());
        }
        _ => panic!("unknown sweep {name}"),
    }
    let _ = (&ctx.tier, n);
    drop(ctx.cas.take());
    util::rm_rf(&ctx.dir);
}

/// Child entry: `cvh input-child <sweep> <chunk> <nchunks> <tier>`; prints the result JSON on stdout.
pub fn child_main(args: &[String]) {
    let mut res = WorkerResult::new("input");
    run_sweep(&args[0], &args[3], args[1].parse().unwrap(), args[2].parse().unwrap(), &mut res);
    println!("{}", serde_json::to_string(&res.to_json()).unwrap());
}

fn merge(into: &mut WorkerResult, r: WorkerResult) {
    for (k, v) in r.counters {
        into.count(&k, v);
    }
    into.states.extend(r.states);
    into.outcomes.extend(r.outcomes);
    for s in r.samples {
        into.sample(s);
    }
    for v in r.violations {
        into.violate(v);
    }
    into.completed.extend(r.completed);
}

fn spawn_child(args: &[String]) -> Result<WorkerResult, (String, String)> {
    let exe = std::env::current_exe().unwrap();
    let out = std::process::Command::new(exe).arg("input-child").args(args).output().expect("spawn input child");
    let stderr = String::from_utf8_lossy(&out.stderr).into_owned();
    if out.status.success() {
        let r: WorkerResult = serde_json::from_slice(&out.stdout).map_err(|e| ("child-output".to_string(), format!("{e}")))?;
        Ok(r)
    } else if let Some(line) = stderr.lines().find(|l| l.starts_with("ALLOCVIOL")) {
        Err(("alloc-bound".into(), line.to_string()))
    } else {
        Err(("child-died".into(), format!("status {:?}: {}", out.status, stderr.chars().rev().take(600).collect::<String>().chars().rev().collect::<String>())))
    }
}

pub fn run(tier: &str, slice: (u64, u64), _seed: u64, prop: &str) -> WorkerResult {
    let mut res = WorkerResult::new("input");
    let mut j = 0u64;
    for (name, p, chunks) in SWEEPS {
        // C06 borrows the size ladder (its findings about a blob filed under a wrong name carry both tags)
        if *p != prop && !(prop == "C06" && *name == "sizes") {
            continue;
        }
        for c in 0..*chunks {
            j += 1;
            if j % slice.1 != slice.0 {
                continue;
            }
            let args = vec![name.to_string(), c.to_string(), chunks.to_string(), tier.to_string()];
            match spawn_child(&args) {
                Ok(r) => merge(&mut res, r),
                Err((oracle, detail)) => {
                    let mut v = Violation::new(&[p], &format!("{oracle}/{name}"), format!("sweep {name} chunk {c}/{chunks}: {detail}"));
                    v.replay = json!({"engine": "input", "sweep": name, "chunk": c, "chunks": chunks, "tier": tier, "whole_chunk": true});
                    res.violate(v);
                }
            }
        }
    }
    if res.samples.is_empty() {
        res.sample(json!({"sweeps": SWEEPS.iter().filter(|s| s.1 == prop).map(|s| s.0).collect::<Vec<_>>()}));
    }
    res
}

/// Replay one recorded input (in a child, so that an abort is observed rather than suffered).
pub fn replay(case: &Value) -> Vec<Violation> {
    if case["whole_chunk"].as_bool() == Some(true) {
        let args = vec![
            case["sweep"].as_str().unwrap().to_string(),
            case["chunk"].as_u64().unwrap().to_string(),
            case["chunks"].as_u64().unwrap().to_string(),
            case["tier"].as_str().unwrap().to_string(),
        ];
        return match spawn_child(&args) {
            Ok(r) => r.violations,
            Err((o, d)) => vec![Violation::new(&["C16"], &o, d)],
        };
    }
    if std::env::var("CVH_INPUT_REPLAY_CHILD").is_err() {
        // re-exec self so a crash is visible
        let exe = std::env::current_exe().unwrap();
        let tmp = util::fresh_dir("replay").with_extension("json");
        std::fs::write(&tmp, serde_json::to_string(case).unwrap()).unwrap();
        let out = std::process::Command::new(exe).arg("replay").arg(&tmp).env("CVH_INPUT_REPLAY_CHILD", "1").output().unwrap();
        let _ = std::fs::remove_file(&tmp);
        let so = String::from_utf8_lossy(&out.stdout).into_owned();
        let se = String::from_utf8_lossy(&out.stderr).into_owned();
        if out.status.code() == Some(0) {
            return vec![];
        }
        return vec![Violation::new(&["C16"], "replayed", format!("{so}{se}"))];
    }
    let sweep = case["sweep"].as_str().unwrap_or("");
    let unhex = |s: &str| -> Vec<u8> { (0..s.len() / 2).map(|i| u8::from_str_radix(&s[2 * i..2 * i + 2], 16).unwrap()).collect() };
    let mut ctx = Ctx::new("quick");
    let f: Option<Finding> = match sweep {
        "dec-op" => check_dec_op(&unhex(case["input"].as_str().unwrap())),
        "dec-index" => check_dec_index(&unhex(case["input"].as_str().unwrap())),
        "dec-path" => check_dec_path(&unhex(case["input"].as_str().unwrap())),
        "open-crafted" => check_open_crafted(case["input"]["file"].as_str().unwrap(), &unhex(case["input"]["bytes"].as_str().unwrap()), 10_000),
        "range" => {
            let i = &case["input"];
            let l = i["L"].as_u64().unwrap() as usize;
            // reproduce the overwrite context: a longer and a shorter value were stored under the same key before
            let _ = check_range(&mut ctx, l / 2, 0, 1);
            let _ = check_range(&mut ctx, l + 17, 0, 1);
            if l <= 20_000 {
                let p = ctx.dir.join("cas").join(ondisk::path_of_hash(&b3(&pattern(l))));
                std::fs::create_dir_all(p.parent().unwrap()).unwrap();
                std::fs::write(&p, b"stale").unwrap();
            }
            if i["size_reader"].as_bool() == Some(true) {
                let _ = check_range(&mut ctx, l, 0, 0);
                check_size_reader(&mut ctx, l)
            } else {
                check_range(&mut ctx, l, i["start"].as_u64().unwrap(), i["end"].as_u64().unwrap())
            }
        }
        "chunking" => {
            let i = &case["input"];
            let content = match i["content"].as_str().unwrap() {
                "pattern20000" => pattern(20_000),
                "pattern300" => pattern(20_000)[..300].to_vec(),
                h if h.starts_with("pattern") => pattern(h[7..].parse().unwrap()),
                h => unhex(h),
            };
            let cuts: Vec<usize> = match &i["chunks"] {
                Value::Array(a) => a.iter().map(|x| x.as_u64().unwrap() as usize).collect(),
                _ => vec![1; 300],
            };
            check_chunking(&mut ctx, &content, &cuts)
        }
        "sizes" => {
            let i = &case["input"];
            let len = i["len"].as_u64().unwrap() as usize;
            let cuts: Vec<usize> = match (&i["chunks"], i["plan"].as_u64()) {
                (Value::Array(a), _) => a.iter().map(|x| x.as_u64().unwrap() as usize).collect(),
                (_, Some(piece)) => {
                    let piece = piece as usize;
                    let mut v = vec![piece; len / piece];
                    if len % piece != 0 {
                        v.push(len % piece);
                    }
                    v
                }
                _ => vec![len],
            };
            check_chunking(&mut ctx, &pattern(len), &cuts)
        }
        "pathbij" => {
            let h: [u8; 32] = unhex(case["input"].as_str().unwrap()).try_into().unwrap();
            check_pathbij(&h, &mut Default::default())
        }
        _ => {
            // rt-keys / rt-ops: re-run the whole (small) sweep
            let mut res = WorkerResult::new("input");
            run_sweep(sweep, "quick", 0, 1, &mut res);
            return res.violations;
        }
    };
    drop(ctx.cas.take());
    util::rm_rf(&ctx.dir);
    f.map(|(p, o, d)| vec![Violation::new(&[p], &o, d)]).unwrap_or_default()
}
