//! SEQ — bounded-exhaustive operation-sequence explorer (C01, C02, C07, C12, C13, C06(iv), C20 at op boundaries).

use crate::keys::HKey;
use crate::model::Model;
use crate::ondisk;
use crate::ops::{self, Cfg, Op};
use crate::real::{self, Class, Store};
use crate::report::{Violation, WorkerResult};
use crate::util::{self, Image, b3, hex};
use serde_json::{Value, json};
use std::collections::BTreeMap;
use std::io::Read;
use std::path::Path;

pub struct SubRun {
    pub key: &'static str,
    pub alphabet: &'static str,
    pub depth: usize,
    pub cfg: Cfg,
}

pub fn plan(tier: &str, prop: &str) -> Vec<SubRun> {
    let mut v = Vec::new();
    let c = |n, a| Cfg { n, async_mode: a };
    // properties for which SEQ is a secondary engine get a reduced quick plan (their primary engine carries the weight)
    if tier == "quick" && prop == "C20" {
        // restarts in the middle of a segment followed by boundary crossings need depth >= 4 at N=2 and >= 5 at N=3
        v.push(SubRun { key: "String", alphabet: "base", depth: 4, cfg: c(2, false) });
        v.push(SubRun { key: "String", alphabet: "tiny", depth: 5, cfg: c(3, false) });
        v.push(SubRun { key: "String", alphabet: "base", depth: 3, cfg: c(1, false) });
        v.push(SubRun { key: "String", alphabet: "base", depth: 3, cfg: c(10_000, false) });
        v.push(SubRun { key: "String", alphabet: "tiny", depth: 4, cfg: c(2, true) });
        return v;
    }
    if tier == "quick" && matches!(prop, "C06" | "C18") {
        for n in [1, 2, 10_000] {
            v.push(SubRun { key: "String", alphabet: "base", depth: 3, cfg: c(n, false) });
        }
        v.push(SubRun { key: "String", alphabet: "tiny", depth: 4, cfg: c(3, false) });
        v.push(SubRun { key: "String", alphabet: "wide", depth: 2, cfg: c(2, false) });
        v.push(SubRun { key: "String", alphabet: "tiny", depth: 3, cfg: c(2, true) });
        return v;
    }
    // thorough tier of the properties for which SEQ is secondary: the primary quick plan
    if tier == "quick" || matches!(prop, "C06" | "C20" | "C18") {
        for n in [1, 2, 10_000] {
            v.push(SubRun { key: "String", alphabet: "base", depth: 4, cfg: c(n, false) });
        }
        v.push(SubRun { key: "String", alphabet: "tiny", depth: 5, cfg: c(3, false) });
        v.push(SubRun { key: "String", alphabet: "tiny", depth: 4, cfg: c(2, true) });
        v.push(SubRun { key: "String", alphabet: "tiny", depth: 3, cfg: c(10_000, true) });
        v.push(SubRun { key: "String", alphabet: "wide", depth: 3, cfg: c(2, false) });
        v.push(SubRun { key: "String", alphabet: "three", depth: 5, cfg: c(10_000, false) });
        v.push(SubRun { key: "String", alphabet: "three", depth: 5, cfg: c(2, false) });
        for key in ["Vec<u8>", "u32", "i16", "[u8;2]"] {
            v.push(SubRun { key, alphabet: "typed", depth: 3, cfg: c(2, false) });
        }
    } else {
        for n in [1, 2, 3] {
            v.push(SubRun { key: "String", alphabet: "base", depth: 5, cfg: c(n, false) });
        }
        v.push(SubRun { key: "String", alphabet: "base", depth: 5, cfg: c(10_000, false) });
        for n in [1, 2, 3, 10_000] {
            v.push(SubRun { key: "String", alphabet: "base", depth: 4, cfg: c(n, true) });
            v.push(SubRun { key: "String", alphabet: "wide", depth: 4, cfg: c(n, false) });
        }
        for n in [1, 2, 3, 10_000] {
            v.push(SubRun { key: "String", alphabet: "three", depth: 6, cfg: c(n, false) });
        }
        v.push(SubRun { key: "String", alphabet: "tiny", depth: 6, cfg: c(4, false) });
        v.push(SubRun { key: "String", alphabet: "tiny", depth: 6, cfg: c(2, true) });
        for key in ["Vec<u8>", "u32", "i16", "[u8;2]"] {
            for n in [1, 2, 10_000] {
                v.push(SubRun { key, alphabet: "typed", depth: 4, cfg: c(n, false) });
            }
        }
    }
    v
}

pub fn universe_of(alpha: &[Op]) -> Vec<u8> {
    let mut u: Vec<u8> = Vec::new();
    let mut add = |k: u8| {
        if !u.contains(&k) {
            u.push(k)
        }
    };
    for op in alpha {
        match *op {
            Op::Put { k, .. } | Op::Abort { k, .. } | Op::Remove { k } => add(k),
            Op::RemoveRange { lo, hi } => {
                for b in [lo, hi] {
                    if let ops::B::Inc(k) | ops::B::Exc(k) = b {
                        add(k)
                    }
                }
            }
            _ => {}
        }
    }
    u.sort();
    u
}

fn props_for(class: Class, op: Option<&Op>) -> Vec<&'static str> {
    let restart = matches!(op, Some(Op::Reopen) | None);
    let ckpt = matches!(op, Some(Op::Checkpoint));
    let abort = matches!(op, Some(Op::Abort { .. }));
    match class {
        Class::Reads => {
            if restart {
                vec!["C02"]
            } else if ckpt {
                vec!["C02", "C01"]
            } else if abort {
                vec!["C13", "C01"]
            } else {
                vec!["C01"]
            }
        }
        Class::Counts => {
            if restart {
                vec!["C12", "C02"]
            } else if abort {
                vec!["C12", "C13"]
            } else {
                vec!["C12"]
            }
        }
        Class::IndexStat => vec!["C02"],
        Class::Dir => {
            if abort {
                vec!["C07", "C13"]
            } else {
                vec!["C07"]
            }
        }
        Class::Blob => vec!["C06"],
    }
}

/// Top-level files only (log, snapshot, settings) — enough for the format checks.
pub fn load_top(dir: &Path) -> Image {
    let mut im = Image::default();
    if let Ok(rd) = std::fs::read_dir(dir) {
        for e in rd.flatten() {
            if e.file_type().map(|t| t.is_file()).unwrap_or(false) {
                im.files.insert(e.file_name().to_string_lossy().into_owned(), std::fs::read(e.path()).unwrap_or_default());
            }
        }
    }
    im
}

/// C20 at an operation boundary: well-formed log + snapshot, equal to the model, versions never reused.
pub fn disk_check<K: HKey>(
    dir: &Path,
    n: u64,
    m: &Model<K>,
    seen: &mut BTreeMap<u64, [u8; 32]>,
    restart: bool,
) -> Option<(Vec<&'static str>, &'static str, String)> {
    let im = load_top(dir);
    let disk = match ondisk::decode_disk(&im, n) {
        Ok(d) => d,
        Err(e) => return Some((vec!["C20"], "disk-malformed", e)),
    };
    for r in disk.records() {
        let h = b3(&r.payload);
        if let Some(prev) = seen.insert(r.version, h) {
            if prev != h {
                return Some((vec!["C20"], "version-reused", format!("version {} maps to two different records", r.version)));
            }
        }
    }
    if disk.highest_version() != m.next_ver - 1 {
        return Some((
            vec!["C20"],
            "version-sequence",
            format!("highest version on disk {} but {} operations were logged", disk.highest_version(), m.next_ver - 1),
        ));
    }
    let want: BTreeMap<Vec<u8>, ([u8; 32], u64)> =
        m.map.iter().map(|(k, v)| (k.to_key_bytes().as_ref().to_vec(), (b3(v), v.len() as u64))).collect();
    match disk.replay() {
        Err(e) => Some((vec!["C20"], "disk-replay", e)),
        Ok(got) => {
            if got != want {
                let props = if restart { vec!["C20", "C02"] } else { vec!["C20"] };
                Some((props, "disk-vs-model", format!(
                    "snapshot+log decode to {:?}, acknowledged history gives {:?}",
                    got.iter().map(|(k, (h, s))| (util::show(k), hex(&h[..3]), *s)).collect::<Vec<_>>(),
                    want.iter().map(|(k, (h, s))| (util::show(k), hex(&h[..3]), *s)).collect::<Vec<_>>()
                )))
            } else {
                None
            }
        }
    }
}

pub fn case_json<K: HKey>(cfg: &Cfg, universe: &[u8], ops: &[Op]) -> Value {
    json!({"engine": "seq", "key": K::NAME, "cfg": cfg, "universe": universe, "ops": ops, "text": ops::show_seq::<K>(ops)})
}

/// Run one sequence; returns violations (first failing step only) and the number of steps executed.
pub fn run_case<K: HKey>(cfg: &Cfg, universe: &[u8], opsq: &[Op], res: &mut WorkerResult, verbose: bool) -> Vec<Violation> {
    let dir = util::fresh_dir("seq");
    let out = run_case_in::<K>(&dir, cfg, universe, opsq, res, verbose);
    util::rm_rf(&dir);
    out
}

fn run_case_in<K: HKey>(dir: &Path, cfg: &Cfg, universe: &[u8], opsq: &[Op], res: &mut WorkerResult, verbose: bool) -> Vec<Violation> {
    let mut vs: Vec<Violation> = Vec::new();
    let mk = |props: Vec<&str>, oracle: &str, detail: String, upto: usize| {
        let mut v = Violation::new(&props, oracle, format!("[{} {}] after `{}`: {detail}", K::NAME, cfg.show(), ops::show_seq::<K>(&opsq[..upto])));
        v.replay = case_json::<K>(cfg, universe, &opsq[..upto]);
        v
    };
    let mut store = match Store::<K>::open(dir, cfg.config()) {
        Ok(s) => s,
        Err(e) => {
            vs.push(mk(vec!["C01", "C02"], "open-failed", format!("first open failed: {e}"), 0));
            return vs;
        }
    };
    let mut model = Model::<K>::default();
    let mut seen: BTreeMap<u64, [u8; 32]> = BTreeMap::new();
    for (i, op) in opsq.iter().enumerate() {
        res.count("steps", 1);
        let upto = i + 1;
        // C06(iv): readers obtained before a mutation keep streaming the original bytes
        let mut readers = Vec::new();
        let mutating = matches!(op, Op::Put { .. } | Op::Remove { .. } | Op::RemoveRange { .. });
        if mutating {
            for (k, v) in &model.map {
                if let Ok(Some(r)) = store.cas().get_reader(k) {
                    readers.push((k.clone(), v.clone(), r));
                }
            }
        }
        let before = if matches!(op, Op::Abort { .. }) { Some(Image::load(dir)) } else { None };
        if matches!(op, Op::Reopen) {
            store.close();
            if let Some((p, o, d)) = disk_check::<K>(dir, cfg.n, &model, &mut seen, true) {
                vs.push(mk(p, o, format!("(closed store) {d}"), i));
            }
        }
        let got = store.apply(op);
        let want = model.apply(op);
        if verbose {
            println!("  step {upto}: {} -> {:?} (model {:?})", op.show::<K>(), got, want);
        }
        match got {
            Err(e) => {
                let p = if matches!(op, Op::Reopen) { vec!["C02"] } else if matches!(op, Op::Abort { .. }) { vec!["C13", "C01"] } else { vec!["C01"] };
                vs.push(mk(p, "op-failed", format!("operation failed without any fault: {e}"), upto));
                if matches!(op, Op::Reopen) {
                    // the restart changes no contents: what the failed open left under cas/ and staging/ is still judged (C07)
                    let mut fd = Vec::new();
                    real::check_dir(dir, &model, &mut fd);
                    for x in fd {
                        vs.push(mk(vec!["C07"], &format!("after-failed-reopen-{}", x.oracle), x.detail, upto));
                    }
                }
                return vs;
            }
            Ok(r) if r != want => {
                vs.push(mk(vec!["C01"], "return-value", format!("returned {r:?}, model {want:?}"), upto));
            }
            Ok(_) => {}
        }
        for (k, v, mut r) in readers {
            let mut buf = Vec::new();
            let rr = r.read_to_end(&mut buf);
            if rr.is_err() || buf != v {
                vs.push(mk(vec!["C06"], "reader-after-mutation", format!("reader for {k:?} obtained before the operation streamed {} ({rr:?}), original {}", util::show(&buf), util::show(&v)), upto));
            }
        }
        if let Some(b) = before {
            let after = Image::load(dir);
            if !b.eq_ignoring_lock(&after) {
                vs.push(mk(vec!["C13"], "abort-changed-files", format!("files changed across an abandoned transaction: {}", b.diff(&after)), upto));
            }
        }
        for fd in real::check_all(store.cas(), &model, dir, universe) {
            vs.push(mk(props_for(fd.class, Some(op)), fd.oracle, fd.detail, upto));
        }
        if let Some((p, o, d)) = disk_check::<K>(dir, cfg.n, &model, &mut seen, false) {
            vs.push(mk(p, o, d, upto));
        }
        // keep going after a violation (another property's oracle may only fire later, e.g. after the next
        // restart), but keep one finding per oracle and stop once the run is clearly derailed
        dedupe(&mut vs);
        if vs.len() > 12 {
            return vs;
        }
        let lag = {
            let snap = std::fs::read(dir.join("index")).ok().and_then(|b| b.get(0..8).map(|x| u64::from_le_bytes(x.try_into().unwrap()))).unwrap_or(0);
            (model.next_ver - 1 - snap).min(3)
        };
        res.state(&format!("{}|{}|{}|{}", K::NAME, model.canon(), (model.next_ver - 1) % cfg.n.min(8), lag));
    }
    // leaf: restart twice without writes
    for round in 0..2 {
        store.close();
        if let Some((p, o, d)) = disk_check::<K>(dir, cfg.n, &model, &mut seen, true) {
            vs.push(mk(p, o, format!("(closed store, leaf restart {round}) {d}"), opsq.len()));
        }
        if let Err(e) = store.reopen() {
            vs.push(mk(vec!["C02"], "reopen-failed", format!("leaf restart {round} failed: {e}"), opsq.len()));
            return vs;
        }
        res.count("steps", 1);
        for fd in real::check_all(store.cas(), &model, dir, universe) {
            let mut v = mk(props_for(fd.class, None), fd.oracle, format!("(leaf restart {round}) {}", fd.detail), opsq.len());
            v.sig = format!("{}@restart", fd.oracle);
            vs.push(v);
        }
        dedupe(&mut vs);
    }
    vs
}

fn dedupe(vs: &mut Vec<Violation>) {
    let mut seen: Vec<(Vec<String>, String)> = Vec::new();
    vs.retain(|v| {
        let k = (v.props.clone(), v.oracle.clone());
        if seen.contains(&k) {
            false
        } else {
            seen.push(k);
            true
        }
    });
}

fn run_sub<K: HKey>(sr: &SubRun, slice: (u64, u64), seed: u64, res: &mut WorkerResult) {
    let alpha: Vec<Op> = ops::alphabet(sr.alphabet)
        .into_iter()
        .filter(|op| match *op {
            Op::RemoveRange { lo, hi } => ops::range_ok::<K>(lo, hi),
            _ => true,
        })
        .collect();
    let universe = universe_of(&alpha);
    let total = ops::seq_count(&alpha, sr.depth);
    let mut done = 0u64;
    for j in 0..total {
        if j % slice.1 != slice.0 {
            continue;
        }
        // VERIF_SEED rotates the enumeration order only (a bijection on indices)
        let idx = (j + seed) % total;
        let opsq = ops::seq_of(&alpha, sr.depth, idx);
        let vs = run_case::<K>(&sr.cfg, &universe, &opsq, res, false);
        done += 1;
        if idx % 997 == 123 && res.samples.len() < 2 {
            res.sample(case_json::<K>(&sr.cfg, &universe, &opsq));
        }
        for v in vs {
            res.violate(v);
        }
    }
    res.count("sequences", done);
    if slice.0 == 0 {
        res.completed.push(format!(
            "{} {} alphabet={}({} symbols) depth={} : {} sequences",
            K::NAME,
            sr.cfg.show(),
            sr.alphabet,
            alpha.len(),
            sr.depth,
            total
        ));
    }
}

pub fn dispatch_sub(sr: &SubRun, slice: (u64, u64), seed: u64, res: &mut WorkerResult) {
    match sr.key {
        "String" => run_sub::<String>(sr, slice, seed, res),
        "Vec<u8>" => run_sub::<Vec<u8>>(sr, slice, seed, res),
        "u32" => run_sub::<u32>(sr, slice, seed, res),
        "i16" => run_sub::<i16>(sr, slice, seed, res),
        "[u8;2]" => run_sub::<[u8; 2]>(sr, slice, seed, res),
        k => panic!("unknown key type {k}"),
    }
}

/// One very large log record (a range removal over keys whose encodings add up to `total` bytes), then a clean restart
/// before any checkpoint covers it, then more operations and another restart (C01/C02/C20 for records beyond 1 MiB).
pub fn big_record_case(total: usize, cfg: &Cfg, res: &mut WorkerResult) -> Vec<Violation> {
    let mut vs = Vec::new();
    let dir = util::fresh_dir("bigrec");
    let klen = 9000usize;
    let nkeys = total / klen + 1;
    let key = |i: usize| format!("{:0>width$}", i, width = klen);
    let mk = |oracle: &str, detail: String| {
        let mut v = Violation::new(&["C02", "C01"], oracle, format!("[{}] {nkeys} keys of {klen} bytes sharing one blob, remove_range over all but the last 3 (one log record of about {} bytes): {detail}", cfg.show(), (nkeys - 3) * (klen + 4)));
        v.sig = format!("{oracle}|big-record");
        v.replay = json!({"engine": "seq", "kind": "big-record", "total": total, "cfg": cfg});
        v
    };
    let r = util::catch(|| -> Result<(), String> {
        let cas = real::open_cas::<String>(&dir, &cfg.config())?;
        for i in 0..nkeys {
            real::put_chunks(&cas, key(i), &[b"xx"], true)?;
        }
        cas.checkpoint().map_err(|e| util::err_chain(&e))?;
        let n = cas.remove_range(..key(nkeys - 3)).map_err(|e| util::err_chain(&e))?;
        if n != nkeys - 3 {
            return Err(format!("remove_range returned {n}, expected {}", nkeys - 3));
        }
        drop(cas);
        for round in 0..2 {
            let cas = real::open_cas::<String>(&dir, &cfg.config()).map_err(|e| format!("restart {round} failed: {e}"))?;
            let len = cas.read_index_state().len();
            if len != 3 + round {
                return Err(format!("{len} keys after restart {round}, expected {}", 3 + round));
            }
            real::put_chunks(&cas, format!("after{round}"), &[b"yyy"], true)?;
        }
        let cas = real::open_cas::<String>(&dir, &cfg.config()).map_err(|e| format!("final restart failed: {e}"))?;
        let keys: Vec<String> = cas.read_index_state().iter().map(|(k, _)| k.clone()).collect();
        if keys.len() != 5 || !keys.contains(&"after0".to_string()) || !keys.contains(&"after1".to_string()) {
            return Err(format!("after the final restart the store holds {} keys (operations issued after a reopen must survive later reopens)", keys.len()));
        }
        Ok(())
    });
    match r {
        Ok(Ok(())) => {}
        Ok(Err(e)) => vs.push(mk("big-record-restart", e)),
        Err(p) => vs.push(mk("big-record-panic", p)),
    }
    res.count("sequences", 1);
    res.count("steps", nkeys as u64 + 6);
    util::rm_rf(&dir);
    vs
}

pub fn run(tier: &str, slice: (u64, u64), seed: u64, prop: &str) -> WorkerResult {
    let mut res = WorkerResult::new("seq");
    if matches!(prop, "C01" | "C02" | "C20" | "") {
        let sizes: Vec<usize> = if tier == "quick" { vec![70_000, 1_300_000] } else { vec![70_000, 300_000, 1_300_000, 5_000_000, 17_000_000] };
        if let Some(&t) = sizes.get(slice.0 as usize) {
            for v in big_record_case(t, &Cfg { n: 10_000, async_mode: false }, &mut res) {
                res.violate(v);
            }
        }
        if slice.0 == 0 {
            res.completed.push(format!("one log record of about {sizes:?} bytes (range removal over 9000-byte keys), clean restarts before and after further puts"));
        }
    }
    for sr in plan(tier, prop) {
        dispatch_sub(&sr, slice, seed, &mut res);
    }
    res
}

pub fn replay(case: &Value) -> Vec<Violation> {
    let cfg: Cfg = serde_json::from_value(case["cfg"].clone()).expect("cfg");
    if case["kind"].as_str() == Some("big-record") {
        let mut res = WorkerResult::new("seq");
        return big_record_case(case["total"].as_u64().unwrap() as usize, &cfg, &mut res);
    }
    let universe: Vec<u8> = serde_json::from_value(case["universe"].clone()).expect("universe");
    let opsq: Vec<Op> = serde_json::from_value(case["ops"].clone()).expect("ops");
    let mut res = WorkerResult::new("seq");
    match case["key"].as_str().unwrap_or("String") {
        "String" => run_case::<String>(&cfg, &universe, &opsq, &mut res, true),
        "Vec<u8>" => run_case::<Vec<u8>>(&cfg, &universe, &opsq, &mut res, true),
        "u32" => run_case::<u32>(&cfg, &universe, &opsq, &mut res, true),
        "i16" => run_case::<i16>(&cfg, &universe, &opsq, &mut res, true),
        "[u8;2]" => run_case::<[u8; 2]>(&cfg, &universe, &opsq, &mut res, true),
        k => panic!("unknown key type {k}"),
    }
}
