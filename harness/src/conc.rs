//! SCHED programs — small concurrent programs on the real store under the controlled scheduler.
//! Monitors at every scheduling step (C04, C06), oracles at the end of every schedule (C05 linearizability,
//! C07, C12, C13, C08 concurrent clean-up), deadlock / hang detection (C15).

use crate::keys::{self, HKey};
use crate::model::Model;
use crate::ondisk;
use crate::ops::Cfg;
use crate::real;
use crate::report::{Violation, WorkerResult};
use crate::sched::{self, Body, Execution, Outcome};
use crate::util::{self, Image, b3, hex};
use cassadilia::{BlobHash, Cas, OrphanStats};
use serde::{Deserialize, Serialize};
use serde_json::{Value, json};
use std::collections::BTreeMap;
use std::io::Read;
use std::path::Path;
use std::sync::{Arc, Mutex};
use std::time::Duration;

type K = String;

#[derive(Clone, Copy, Debug, PartialEq, Eq, Hash, Serialize, Deserialize)]
pub enum TOp {
    Put { k: u8, c: u8 },
    Abort { k: u8, c: u8 },
    Remove { k: u8 },
    RemoveRangeAll,
    Get { k: u8 },
    GetSize { k: u8 },
    GetRange { k: u8 },
    GetReader { k: u8 },
    Iterate,
    Checkpoint,
    DeleteOrphans,
    Quarantine,
    DeleteOrphan,
}

impl TOp {
    pub fn show(&self) -> String {
        let kn = |k: u8| <K as HKey>::label(k);
        match *self {
            TOp::Put { k, c } => format!("put {}={}", kn(k), keys::content_name(c)),
            TOp::Abort { k, c } => format!("abort {}={}", kn(k), keys::content_name(c)),
            TOp::Remove { k } => format!("remove {}", kn(k)),
            TOp::RemoveRangeAll => "remove_range(..)".into(),
            TOp::Get { k } => format!("get {}", kn(k)),
            TOp::GetSize { k } => format!("get_size {}", kn(k)),
            TOp::GetRange { k } => format!("get_range {} 0..1000", kn(k)),
            TOp::GetReader { k } => format!("get_reader {} + drain", kn(k)),
            TOp::Iterate => "iterate".into(),
            TOp::Checkpoint => "checkpoint".into(),
            TOp::DeleteOrphans => "delete_orphans".into(),
            TOp::Quarantine => "quarantine_orphans".into(),
            TOp::DeleteOrphan => "delete_orphan(Y)".into(),
        }
    }
    fn is_read(&self) -> bool {
        matches!(self, TOp::Get { .. } | TOp::GetSize { .. } | TOp::GetRange { .. } | TOp::GetReader { .. } | TOp::Iterate)
    }
    fn is_cleanup(&self) -> bool {
        matches!(self, TOp::DeleteOrphans | TOp::Quarantine | TOp::DeleteOrphan)
    }
}

#[derive(Clone, Copy, Debug, PartialEq, Eq, Hash, Serialize, Deserialize)]
pub enum Init {
    Empty,
    /// a=X
    A,
    /// a=X, b=X (shared blob)
    AB,
    /// a=X plus an unreferenced blob of content Y in cas/ (a live OrphanStats lists it)
    AOrphan,
    /// a=H (150 KiB content: above any "large blob" threshold such as 64 KiB)
    AH,
    /// a=X whose blob file was replaced by 3 other bytes (damaged store): only "every call returns" (C15) is checked
    ADamaged,
}

#[derive(Clone, Debug, Serialize, Deserialize, PartialEq, Eq, Hash)]
pub struct Program {
    pub cfg: Cfg,
    pub init: Init,
    pub threads: Vec<Vec<TOp>>,
    /// 1: calls on staging/ paths are scheduling points too
    #[serde(default)]
    pub vis: u8,
    /// (thread, k): the k-th mutating filesystem call of that thread fails with EIO
    #[serde(default)]
    pub fault: Option<(usize, u64)>,
}

impl Program {
    pub fn show(&self) -> String {
        format!(
            "[{} init={:?}{}] {}",
            self.cfg.show(),
            self.init,
            match (self.vis, self.fault) {
                (1, _) => " staging-visible".to_string(),
                (_, Some((t, k))) => format!(" EIO at mutating call #{k} of T{t}"),
                _ => String::new(),
            },
            self.threads.iter().enumerate().map(|(i, t)| format!("T{i}: {}", t.iter().map(|o| o.show()).collect::<Vec<_>>().join("; "))).collect::<Vec<_>>().join(" || ")
        )
    }
}

#[derive(Clone, Debug, PartialEq, Eq)]
pub enum Res {
    Unit,
    Bool(bool),
    Count(usize),
    Val(Option<Vec<u8>>),
    Size(Option<u64>),
    Keys(Vec<String>),
    Err(String),
}

#[derive(Clone, Debug)]
pub struct Rec {
    pub thread: usize,
    pub op: TOp,
    pub inv: u64,
    pub resp: u64,
    pub res: Res,
}

pub fn template(cfg: &Cfg, init: Init) -> (Image, BTreeMap<String, Vec<u8>>) {
    let dir = util::fresh_dir("tmpl");
    let mut m = BTreeMap::new();
    {
        let cas = real::open_cas::<K>(&dir, &cfg.config()).expect("template open");
        let x = if init == Init::AH { keys::content(keys::C_H) } else { keys::content(keys::C_X) };
        if init != Init::Empty {
            real::put_chunks(&cas, "a".to_string(), &[x], true).expect("template put");
            m.insert("a".to_string(), x.to_vec());
        }
        if init == Init::AB {
            real::put_chunks(&cas, "b".to_string(), &[x], true).expect("template put");
            m.insert("b".to_string(), x.to_vec());
        }
    }
    let mut im = Image::load(&dir);
    util::rm_rf(&dir);
    if init == Init::ADamaged {
        let p = format!("cas/{}", ondisk::path_of_hash(&b3(keys::content(keys::C_X))));
        im.files.insert(p, b"bad".to_vec());
    }
    if init == Init::AOrphan {
        let y = keys::content(keys::C_Y).to_vec();
        let p = format!("cas/{}", ondisk::path_of_hash(&b3(&y)));
        let parts: Vec<&str> = p.split('/').collect();
        for i in 1..parts.len() {
            im.dirs.insert(parts[..i].join("/"));
        }
        im.files.insert(p, y);
    }
    (im, m)
}

fn exec_op(cas: &Cas<K>, stats: &Option<Arc<OrphanStats<K>>>, qdir: &Path, op: TOp) -> Res {
    let key = |k: u8| <K as HKey>::make(k).unwrap();
    let e = |e: cassadilia::LibError| Res::Err(util::err_chain(&e));
    let r = util::catch(|| match op {
        TOp::Put { k, c } => match real::put_chunks(cas, key(k), &keys::chunks(keys::content(c), 0), true) {
            Ok(()) => Res::Unit,
            Err(x) => Res::Err(x),
        },
        TOp::Abort { k, c } => match real::put_chunks(cas, key(k), &keys::chunks(keys::content(c), 0), false) {
            Ok(()) => Res::Unit,
            Err(x) => Res::Err(x),
        },
        TOp::Remove { k } => cas.remove(&key(k)).map(Res::Bool).unwrap_or_else(e),
        TOp::RemoveRangeAll => cas.remove_range::<std::ops::RangeFull>(..).map(Res::Count).unwrap_or_else(e),
        TOp::Get { k } => cas.get(&key(k)).map(|o| Res::Val(o.map(|b| b.to_vec()))).unwrap_or_else(e),
        TOp::GetSize { k } => cas.get_size(&key(k)).map(Res::Size).unwrap_or_else(e),
        TOp::GetRange { k } => cas.get_range(&key(k), 0, 1000).map(|o| Res::Val(o.map(|b| b.to_vec()))).unwrap_or_else(e),
        TOp::GetReader { .. } => unreachable!(),
        TOp::Iterate => {
            let st = cas.read_index_state();
            Res::Keys(st.iter().map(|(k, _)| k.clone()).collect())
        }
        TOp::Checkpoint => cas.checkpoint().map(|_| Res::Unit).unwrap_or_else(e),
        TOp::DeleteOrphans => match stats {
            Some(s) => s.delete_orphans().map(|r| if r.errors.is_empty() { Res::Unit } else { Res::Err(format!("{:?}", r.errors)) }).unwrap_or_else(e),
            None => Res::Unit,
        },
        TOp::Quarantine => match stats {
            Some(s) => s.quarantine_orphans(qdir).map(|r| if r.errors.is_empty() { Res::Unit } else { Res::Err(format!("{:?}", r.errors)) }).unwrap_or_else(e),
            None => Res::Unit,
        },
        TOp::DeleteOrphan => match stats {
            Some(s) => s.delete_orphan(&BlobHash(b3(keys::content(keys::C_Y)))).map(|_| Res::Unit).unwrap_or_else(e),
            None => Res::Unit,
        },
    });
    r.unwrap_or_else(|p| Res::Err(format!("PANIC: {p}")))
}

fn thread_body(id: usize, ops: Vec<TOp>, cas: Cas<K>, stats: Option<Arc<OrphanStats<K>>>, qdir: std::path::PathBuf, hist: Arc<Mutex<Vec<Rec>>>) -> Body {
    Box::new(move || {
        for (i, op) in ops.iter().enumerate() {
            if i > 0 {
                sched::step_point("next-op");
            }
            let inv = sched::tick();
            let res = if let TOp::GetReader { k } = *op {
                // the reader is obtained, other threads may run, then it is drained
                let got = util::catch(|| cas.get_reader(&<K as HKey>::make(k).unwrap()));
                let resp_reader = sched::tick();
                let r = match got {
                    Err(p) => Res::Err(format!("PANIC: {p}")),
                    Ok(Err(e)) => Res::Err(util::err_chain(&e)),
                    Ok(Ok(None)) => Res::Val(None),
                    Ok(Ok(Some(mut rd))) => {
                        sched::step_point("before-drain");
                        let mut buf = Vec::new();
                        match rd.read_to_end(&mut buf) {
                            Ok(_) => Res::Val(Some(buf)),
                            Err(e) => Res::Err(format!("drain failed: {e}")),
                        }
                    }
                };
                hist.lock().unwrap().push(Rec { thread: id, op: *op, inv, resp: resp_reader, res: r });
                continue;
            } else {
                exec_op(&cas, &stats, &qdir, *op)
            };
            let resp = sched::tick();
            hist.lock().unwrap().push(Rec { thread: id, op: *op, inv, resp, res });
        }
    })
}

// ---------------------------------------------------------------- linearizability (brute force)

#[derive(Clone, Debug)]
struct Ev {
    rec: usize,
    /// 0 = whole op / observe half of a removal, 1 = delete half of a removal
    part: u8,
}

fn apply_event(map: &mut BTreeMap<String, Vec<u8>>, pending_removals: &mut BTreeMap<usize, Vec<String>>, r: &Rec, idx: usize, part: u8) -> bool {
    let key = |k: u8| <K as HKey>::make(k).unwrap();
    match (r.op, part) {
        (TOp::Put { k, c }, _) => {
            if r.res == Res::Unit {
                map.insert(key(k), keys::content(c).to_vec());
                true
            } else {
                // a failed put may or may not have taken effect; oracles flag it separately
                true
            }
        }
        (TOp::Abort { .. }, _) | (TOp::Checkpoint, _) | (TOp::DeleteOrphans, _) | (TOp::Quarantine, _) | (TOp::DeleteOrphan, _) => true,
        (TOp::Get { k }, _) | (TOp::GetReader { k }, _) => r.res == Res::Val(map.get(&key(k)).cloned()) || matches!(r.res, Res::Err(_)),
        (TOp::GetSize { k }, _) => r.res == Res::Size(map.get(&key(k)).map(|v| v.len() as u64)) || matches!(r.res, Res::Err(_)),
        (TOp::GetRange { k }, _) => r.res == Res::Val(map.get(&key(k)).map(|v| real::slice(v, 0, 1000).to_vec())) || matches!(r.res, Res::Err(_)),
        (TOp::Iterate, _) => r.res == Res::Keys(map.keys().cloned().collect()),
        (TOp::Remove { k }, 0) => {
            let present = map.contains_key(&key(k));
            if matches!(r.res, Res::Err(_)) {
                return true;
            }
            if r.res != Res::Bool(present) {
                return false;
            }
            pending_removals.insert(idx, if present { vec![key(k)] } else { vec![] });
            true
        }
        (TOp::RemoveRangeAll, 0) => {
            let ks: Vec<String> = map.keys().cloned().collect();
            if matches!(r.res, Res::Err(_)) {
                return true;
            }
            if r.res != Res::Count(ks.len()) {
                return false;
            }
            pending_removals.insert(idx, ks);
            true
        }
        (TOp::Remove { .. }, _) | (TOp::RemoveRangeAll, _) => {
            for k in pending_removals.remove(&idx).unwrap_or_default() {
                map.remove(&k);
            }
            true
        }
    }
}

/// Is there an order of the events (removals split in observe + delete) that respects real time,
/// explains every result and ends in `final_map`?
pub fn linearizable(init: &BTreeMap<String, Vec<u8>>, hist: &[Rec], final_map: &BTreeMap<String, Vec<u8>>) -> bool {
    let mut events: Vec<Ev> = Vec::new();
    for (i, r) in hist.iter().enumerate() {
        events.push(Ev { rec: i, part: 0 });
        if matches!(r.op, TOp::Remove { .. } | TOp::RemoveRangeAll) {
            events.push(Ev { rec: i, part: 1 });
        }
    }
    fn go(events: &[Ev], done: &mut Vec<bool>, hist: &[Rec], map: &BTreeMap<String, Vec<u8>>, pend: &BTreeMap<usize, Vec<String>>, final_map: &BTreeMap<String, Vec<u8>>) -> bool {
        if done.iter().all(|d| *d) {
            return map == final_map;
        }
        for (ei, e) in events.iter().enumerate() {
            if done[ei] {
                continue;
            }
            // part 1 only after part 0 of the same op
            if e.part == 1 && !done[events.iter().position(|x| x.rec == e.rec && x.part == 0).unwrap()] {
                continue;
            }
            // real time: every op that responded before this one was invoked must be completely done
            let r = &hist[e.rec];
            let blocked = events.iter().enumerate().any(|(oi, o)| !done[oi] && o.rec != e.rec && hist[o.rec].resp < r.inv);
            if blocked {
                continue;
            }
            let mut m2 = map.clone();
            let mut p2 = pend.clone();
            if apply_event(&mut m2, &mut p2, r, e.rec, e.part) {
                done[ei] = true;
                if go(events, done, hist, &m2, &p2, final_map) {
                    return true;
                }
                done[ei] = false;
            }
        }
        false
    }
    let mut done = vec![false; events.len()];
    go(&events, &mut done, hist, init, &BTreeMap::new(), final_map)
}

// ---------------------------------------------------------------- one schedule

pub struct RunOut {
    pub exec: Execution,
    /// (props, oracle, detail)
    pub findings: Vec<(Vec<&'static str>, String, String)>,
    pub outcome_label: String,
}

fn monitor_step(dir: &Path, cas: &Cas<K>, step: usize, found: &mut Vec<(Vec<&'static str>, String, String)>, last_label: &str) {
    if !found.is_empty() {
        return;
    }
    // The blobs these programs can create are those of the content universe; they are probed directly (a few
    // syscalls). A full walk of cas/ is done when the last call touched any other path under cas/, and at quiescence.
    let cands: Vec<(String, [u8; 32])> = [keys::C_X, keys::C_Y, keys::C_E, keys::C_H].iter().map(|c| b3(keys::content(*c))).map(|h| (ondisk::path_of_hash(&h), h)).collect();
    let mut present: BTreeMap<String, Vec<u8>> = BTreeMap::new();
    let touched_other = last_label.contains("cas/") && !cands.iter().any(|(p, _)| last_label.contains(p.as_str()));
    if touched_other || step == 0 {
        let cas_im = Image::load(&dir.join("cas"));
        for (rel, data) in &cas_im.files {
            if ondisk::hash_of_path(rel).is_none() {
                found.push((vec!["C06"], "step-cas-stray".into(), format!("at scheduling step {step} a non-blob file cas/{rel} is visible")));
                return;
            }
            present.insert(rel.clone(), data.clone());
        }
    } else {
        for (rel, _) in &cands {
            if let Ok(d) = std::fs::read(dir.join("cas").join(rel)) {
                present.insert(rel.clone(), d);
            }
        }
    }
    // C06: every blob-named file under cas/ holds the bytes its name encodes
    for (rel, data) in &present {
        if let Some(h) = ondisk::hash_of_path(rel) {
            if b3(data) != h {
                found.push((vec!["C06"], "step-cas-content".into(), format!("at scheduling step {step} (after {last_label}) cas/{rel} holds {} which does not hash to its name", util::show(data))));
                return;
            }
        }
    }
    // C04: every key visible in the index resolves to an intact blob
    if !cas.verif_state_write_locked() {
        let st = cas.read_index_state();
        for (k, it) in st.iter() {
            let rel = ondisk::path_of_hash(it.blob_hash.as_bytes());
            let data = match present.get(&rel) {
                Some(d) => Some(d.clone()),
                None => std::fs::read(dir.join("cas").join(&rel)).ok(),
            };
            match data {
                None => {
                    found.push((vec!["C04"], "dangling-reference".into(), format!("at scheduling step {step} (after {last_label}) key {k:?} -> {} but cas/{rel} does not exist", &it.blob_hash.to_hex()[..8])));
                    return;
                }
                Some(d) if d.len() as u64 != it.blob_size => {
                    found.push((vec!["C04"], "reference-size".into(), format!("at scheduling step {step} key {k:?} records size {} but the blob has {} bytes", it.blob_size, d.len())));
                    return;
                }
                _ => {}
            }
        }
    }
}

pub fn run_one(p: &Program, tmpl: &(Image, BTreeMap<String, Vec<u8>>), prefix: &[usize], verbose: bool, seen_final: &mut std::collections::BTreeSet<String>) -> RunOut {
    let mut out = run_one_inner(p, tmpl, prefix, verbose, seen_final);
    if p.init == Init::ADamaged {
        // the store is damaged on purpose: reads legitimately return wrong bytes; only completion is required
        out.findings.retain(|f| f.0.contains(&"C15"));
    }
    if p.fault.is_some() {
        // everything found in a fault program also concerns fault containment
        for f in out.findings.iter_mut() {
            if !f.0.contains(&"C14") {
                f.0.push("C14");
            }
        }
    }
    out
}

fn run_one_inner(p: &Program, tmpl: &(Image, BTreeMap<String, Vec<u8>>), prefix: &[usize], verbose: bool, seen_final: &mut std::collections::BTreeSet<String>) -> RunOut {
    let dir = util::fresh_dir("sch");
    let qdir = util::fresh_dir("schq");
    tmpl.0.materialize(&dir);
    let mut findings: Vec<(Vec<&'static str>, String, String)> = Vec::new();
    let (cas, stats) = match real::open_recover::<K>(&dir, &p.cfg.config()) {
        Ok(x) => x,
        Err(e) => {
            findings.push((vec!["C15"], "setup-open-failed".into(), e));
            return RunOut { exec: Execution { points: vec![], outcome: Outcome::Completed }, findings, outcome_label: "setup-failed".into() };
        }
    };
    let stats = stats.map(Arc::new);
    let hist: Arc<Mutex<Vec<Rec>>> = Arc::new(Mutex::new(Vec::new()));
    let bodies: Vec<Body> = p.threads.iter().enumerate().map(|(i, ops)| thread_body(i, ops.clone(), cas.clone(), stats.clone(), qdir.clone(), hist.clone())).collect();
    let step_store: Arc<Mutex<Vec<(Vec<&'static str>, String, String)>>> = Arc::new(Mutex::new(Vec::new()));
    let exec = {
        let (cas_m, dir_m, store) = (cas.clone(), dir.clone(), step_store.clone());
        let monitor: sched::Monitor = Box::new(move |step: usize, prev: &str| {
            // cas/ and the index only change through a visible filesystem call or under the state write lock
            let relevant = step == 0 || prev.contains("@fs:") || prev.contains(":State") || prev.contains("@start") || prev.contains("next-op") || prev.contains("before-drain");
            if relevant {
                monitor_step(&dir_m, &cas_m, step, &mut store.lock().unwrap(), prev);
            }
        });
        sched::set_fault(p.fault);
        sched::run_schedule(&dir, bodies, prefix, if p.vis == 1 { sched::visible_with_staging } else { sched::visible_default }, monitor, Duration::from_secs(60))
    };
    let fired = sched::take_fault_fired();
    let mut step_findings = std::mem::take(&mut *step_store.lock().unwrap());
    let has_cleanup = p.threads.iter().flatten().any(|o| o.is_cleanup());
    // "clean-up never removes a blob that is referenced or that a concurrent put of the same content is committing" (C08)
    if has_cleanup {
        for f in step_findings.iter_mut() {
            if f.0.contains(&"C04") {
                f.0.push("C08");
            }
        }
    }
    findings.extend(step_findings);
    let h = hist.lock().unwrap().clone();
    // the call record during which the injected failure happened (its error is legitimate; its effect is "old or new")
    let faulted_rec: Option<usize> = match (&fired, p.fault) {
        (Some((t, _)), Some((ft, _))) => h.iter().position(|r| r.thread == ft && r.inv < *t && *t < r.resp),
        _ => None,
    };
    if verbose {
        if let Some((t, c)) = &fired {
            println!("  injected EIO at clock {t}: {c}");
        }
        for (i, pt) in exec.points.iter().enumerate() {
            println!("  point {i}: run {} (enabled {:?})", pt.label, pt.enabled);
        }
        for r in &h {
            println!("  T{} {} [{}..{}] -> {:?}", r.thread, r.op.show(), r.inv, r.resp, r.res);
        }
    }
    let mut label = String::new();
    match &exec.outcome {
        Outcome::Deadlock { waiting } => {
            findings.push((vec!["C15"], "deadlock".into(), format!("no thread can proceed; waiting: {waiting:?}")));
            label = "deadlock".into();
        }
        Outcome::Stuck { thread, label: l } => {
            findings.push((vec!["C15"], "hang".into(), format!("thread T{thread} made no progress for 60 s after {l} (blocked outside a scheduling point while all other threads are parked)")));
            label = "hang".into();
        }
        Outcome::Diverged(_) => {
            label = "diverged".into();
        }
        Outcome::Completed => {
            // final observation
            let mut final_map: BTreeMap<String, Vec<u8>> = BTreeMap::new();
            let mut read_fail = None;
            {
                let st = cas.read_index_state();
                let keys_now: Vec<String> = st.iter().map(|(k, _)| k.clone()).collect();
                drop(st);
                for k in keys_now {
                    match cas.get(&k) {
                        Ok(Some(v)) => {
                            final_map.insert(k, v.to_vec());
                        }
                        Ok(None) => {}
                        Err(e) => read_fail = Some(format!("get({k:?}) at quiescence failed: {}", util::err_chain(&e))),
                    }
                }
            }
            // "nothing less": every hash the index references must have its file (independent of whether reads succeed)
            {
                let st = cas.read_index_state();
                for (k, it) in st.iter() {
                    let rel = ondisk::path_of_hash(it.blob_hash.as_bytes());
                    if !dir.join("cas").join(&rel).exists() {
                        findings.push((vec!["C07", "C04"], "quiescent-referenced-blob-missing".into(), format!("at quiescence key {k:?} references {} but cas/{rel} does not exist", &it.blob_hash.to_hex()[..8])));
                        break;
                    }
                }
            }
            if let Some(d) = read_fail {
                findings.push((if has_cleanup { vec!["C04", "C05", "C08"] } else { vec!["C04", "C05"] }, "final-read-failed".into(), d));
            }
            let any_failed = h.iter().any(|r| matches!(r.res, Res::Err(_)));
            for (ri, r) in h.iter().enumerate() {
                if let Res::Err(e) = &r.res {
                    if Some(ri) == faulted_rec && !e.starts_with("PANIC") {
                        continue;
                    }
                    let mut props: Vec<&'static str> = if r.op.is_read() { vec!["C05"] } else if r.op.is_cleanup() { vec!["C08"] } else { vec!["C05", "C04"] };
                    if p.fault.is_some() {
                        props.push("C14");
                    }
                    let class: String = e.chars().take_while(|c| *c != ':' && *c != '(').collect::<String>().split_whitespace().take(3).collect::<Vec<_>>().join("-");
                    findings.push((props, format!("op-failed/{}/{}", op_name(&r.op), class), format!("T{} `{}` failed under this interleaving: {e}", r.thread, r.op.show())));
                }
            }
            // the operation that hit the injected failure may have taken effect or not
            let mut variants: Vec<Vec<Rec>> = vec![h.clone()];
            if let Some(ri) = faulted_rec {
                if matches!(h[ri].res, Res::Err(_)) {
                    let alts: Vec<Res> = match h[ri].op {
                        TOp::Put { .. } => vec![Res::Unit],
                        TOp::Remove { .. } => vec![Res::Bool(true)],
                        TOp::RemoveRangeAll => (1..=3).map(Res::Count).collect(),
                        _ => vec![],
                    };
                    for a in alts {
                        let mut h2 = h.clone();
                        h2[ri].res = a;
                        variants.push(h2);
                    }
                }
            }
            if !variants.iter().any(|hv| linearizable(&tmpl.1, hv, &final_map)) {
                let trace: Vec<String> = h.iter().map(|r| format!("T{} {} [{}..{}] -> {}", r.thread, r.op.show(), r.inv, r.resp, show_res(&r.res))).collect();
                findings.push((if p.fault.is_some() { vec!["C05", "C14"] } else { vec!["C05"] }, "not-linearizable".into(), format!("no real-time-respecting order of the calls explains the results {trace:?} and the final contents {:?}", final_map.iter().map(|(k, v)| format!("{k}={}", util::show(v))).collect::<Vec<_>>())));
            }
            label = format!("{:?}", final_map.iter().map(|(k, v)| format!("{k}={}", String::from_utf8_lossy(v))).collect::<Vec<_>>());
            if fired.is_some() {
                label.push_str(if any_failed { " (faulted op failed)" } else { " (fault absorbed)" });
            }
            // fault programs whose faulted operation failed: the store must reopen; keys other than the failed operation's keep
            // their value, the failed operation's key holds its old or its new value
            if let (Some(ri), true) = (faulted_rec, any_failed) {
                let others_ok = h.iter().enumerate().all(|(i, r)| i == ri || !matches!(r.res, Res::Err(_)));
                if others_ok && matches!(h[ri].res, Res::Err(_)) {
                    let cas2 = cas.clone();
                    drop(cas2);
                    drop(stats);
                    drop(cas);
                    match real::open_cas::<K>(&dir, &p.cfg.config()) {
                        Err(e) => findings.push((vec!["C14"], "reopen-after-faulted-schedule-failed".into(), e)),
                        Ok(c2) => {
                            let failed_keys: Vec<String> = match h[ri].op {
                                TOp::Put { k, .. } | TOp::Remove { k } => vec![<K as HKey>::make(k).unwrap()],
                                TOp::RemoveRangeAll => vec!["a".into(), "b".into(), "c".into()],
                                _ => vec![],
                            };
                            for kname in ["a", "b"] {
                                let kk = kname.to_string();
                                let got = c2.get(&kk).map(|o| o.map(|b| b.to_vec()));
                                let want = final_map.get(&kk).cloned();
                                let ok = match &got {
                                    Ok(g) if *g == want => true,
                                    Ok(g) if failed_keys.contains(&kk) => {
                                        let newv = match h[ri].op {
                                            TOp::Put { c, .. } => Some(keys::content(c).to_vec()),
                                            _ => None,
                                        };
                                        // old value = any value the key held during the run is over-permissive; accept the new value, absence, or the initial value
                                        *g == newv || g.is_none() || *g == tmpl.1.get(&kk).cloned()
                                    }
                                    _ => false,
                                };
                                if !ok {
                                    findings.push((vec!["C14"], "reopen-after-faulted-schedule-differs".into(), format!("after reopening, key {kname:?} reads {:?}; before the reopen it held {:?} (failed operation: T{} `{}`)", got.as_ref().map(|o| o.as_ref().map(|v| util::show(v))).map_err(|e| util::err_chain(e)), want.as_ref().map(|v| util::show(v)), h[ri].thread, h[ri].op.show())));
                                    break;
                                }
                            }
                        }
                    }
                    util::rm_rf(&dir);
                    util::rm_rf(&qdir);
                    return RunOut { exec, findings, outcome_label: label };
                }
            }
            // exactness at quiescence (no failed op): cas/ == referenced contents (+ the planted orphan unless cleaned)
            if !any_failed {
                let mut model = Model::<K>::default();
                model.map = final_map.clone();
                let mut fd = Vec::new();
                real::check_dir(&dir, &model, &mut fd);
                let orphan_rel = ondisk::path_of_hash(&b3(keys::content(keys::C_Y)));
                for x in fd {
                    let only_orphan = p.init == Init::AOrphan && x.oracle == "cas-extra" && x.detail.contains(&orphan_rel) && x.detail.matches("\", \"").count() == 0;
                    if only_orphan {
                        continue;
                    }
                    let props: Vec<&'static str> = if p.threads.iter().flatten().any(|o| o.is_cleanup()) { vec!["C07", "C08"] } else if p.threads.iter().flatten().any(|o| matches!(o, TOp::Abort { .. })) { vec!["C07", "C13"] } else { vec!["C07"] };
                    findings.push((props, format!("quiescent-{}", x.oracle), x.detail));
                }
                let mut fc = Vec::new();
                if util::catch(|| real::check_counts(&cas, &model, &dir, &mut fc)).is_err() {
                    findings.push((vec!["C12"], "counts-panic".into(), "reading counts panicked".into()));
                }
                for x in fc {
                    if x.class == real::Class::Counts {
                        findings.push((vec!["C12"], format!("quiescent-{}", x.oracle), x.detail));
                    }
                }
                // C20 at quiescence: snapshot + log, decoded independently, equal the acknowledged history
                match ondisk::decode_disk(&crate::seq::load_top(&dir), p.cfg.n) {
                    Err(e) => findings.push((vec!["C20"], "quiescent-disk-malformed".into(), e)),
                    Ok(disk) => match disk.replay() {
                        Err(e) => findings.push((vec!["C20"], "quiescent-log-gap".into(), e)),
                        Ok(got) => {
                            let want: BTreeMap<Vec<u8>, ([u8; 32], u64)> = final_map.iter().map(|(k, v)| (k.as_bytes().to_vec(), (b3(v), v.len() as u64))).collect();
                            if got != want {
                                findings.push((vec!["C20"], "quiescent-disk-vs-history".into(), format!("snapshot (version {}) + log decode to keys {:?}, the acknowledged history ends in {:?}", disk.snapshot_version(), got.keys().map(|k| util::show(k)).collect::<Vec<_>>(), final_map.keys().collect::<Vec<_>>())));
                            }
                        }
                    },
                }
                // restart and compare (once per distinct final directory + contents of this program)
                drop(stats);
                drop(cas);
                let fin = format!("{label}|{}", Image::load(&dir).summary());
                let fresh = seen_final.insert(fin);
                if fresh { match real::open_cas::<K>(&dir, &p.cfg.config()) {
                    Err(e) => findings.push((if has_cleanup { vec!["C04", "C02", "C08"] } else { vec!["C04", "C02"] }, "reopen-after-schedule-failed".into(), e)),
                    Ok(c2) => {
                        let mut fr = Vec::new();
                        real::check_reads(&c2, &model, &[0, 1], &mut fr);
                        if let Some(x) = fr.first() {
                            findings.push((vec!["C05", "C02"], format!("reopen-{}", x.oracle), x.detail.clone()));
                        }
                    }
                } }
                util::rm_rf(&dir);
                util::rm_rf(&qdir);
                return RunOut { exec, findings, outcome_label: label };
            }
        }
    }
    drop(stats);
    drop(cas);
    util::rm_rf(&dir);
    util::rm_rf(&qdir);
    RunOut { exec, findings, outcome_label: label }
}

fn op_name(op: &TOp) -> &'static str {
    match op {
        TOp::Put { .. } => "put",
        TOp::Abort { .. } => "abort",
        TOp::Remove { .. } => "remove",
        TOp::RemoveRangeAll => "remove_range",
        TOp::Get { .. } => "get",
        TOp::GetSize { .. } => "get_size",
        TOp::GetRange { .. } => "get_range",
        TOp::GetReader { .. } => "get_reader",
        TOp::Iterate => "iterate",
        TOp::Checkpoint => "checkpoint",
        TOp::DeleteOrphans => "delete_orphans",
        TOp::Quarantine => "quarantine_orphans",
        TOp::DeleteOrphan => "delete_orphan",
    }
}

fn show_res(r: &Res) -> String {
    match r {
        Res::Val(Some(v)) => format!("Some({})", util::show(v)),
        Res::Err(e) => format!("Err({})", e.chars().take(80).collect::<String>()),
        other => format!("{other:?}"),
    }
}

pub fn case_json(p: &Program, schedule: &[usize], bound: Option<usize>) -> Value {
    json!({"engine": "sched", "program": p, "schedule": schedule, "bound": bound, "text": p.show()})
}

/// Explore every schedule of `p` within the preemption bound.
pub fn explore_program(p: &Program, bound: Option<usize>, max_execs: u64, res: &mut WorkerResult) -> Vec<Violation> {
    let tmpl = template(&p.cfg, p.init);
    let mut vs: Vec<Violation> = Vec::new();
    let mut outcomes: std::collections::BTreeSet<String> = Default::default();
    let mut seen_final: std::collections::BTreeSet<String> = Default::default();
    let mut run = |prefix: &[usize]| -> Option<Execution> {
        let out = run_one(p, &tmpl, prefix, false, &mut seen_final);
        res.count("executions", 1);
        res.count("transitions", out.exec.points.len() as u64);
        outcomes.insert(out.outcome_label.clone());
        let sched_choices = out.exec.choices();
        for (props, oracle, detail) in out.findings {
            let preempt = out.exec.preemptions_before(out.exec.points.len());
            let mut v = Violation::new(&props, &oracle, format!("{} under schedule {:?} ({} preemptions): {detail}", p.show(), sched_choices, preempt));
            v.replay = json!({"preemptions": preempt});
            v.sig = format!("{oracle}|{}", sig_of(p));
            let pre = v.replay["preemptions"].as_u64().unwrap_or(0);
            v.replay = case_json(p, &sched_choices, bound);
            v.replay["preemptions"] = json!(pre);
            vs.push(v);
        }
        Some(out.exec)
    };
    let (n, capped, diverged) = sched::explore(bound, max_execs, &mut run);
    let _ = n;
    if capped {
        res.capped = true;
        res.notes.push(format!("{}: stopped at the cap of {max_execs} executions", p.show()));
    }
    if let Some(d) = diverged {
        eprintln!("MACHINERY: nondeterminism while replaying a schedule prefix of {}: {d}", p.show());
        std::process::exit(2);
    }
    res.count("programs", 1);
    res.state(&format!("{}|{:?}", p.show(), outcomes));
    for o in outcomes {
        res.outcomes.insert(o);
    }
    // keep at most a few per program, shortest schedule first
    vs.sort_by_key(|v| (v.replay["preemptions"].as_u64().unwrap_or(0), v.replay["schedule"].as_array().map_or(0, |a| a.len())));
    let mut kept: Vec<Violation> = Vec::new();
    for v in vs {
        if !kept.iter().any(|k| k.oracle == v.oracle) {
            kept.push(v);
        }
    }
    kept
}

/// shape of a program for known-finding signatures: sorted multiset of op names + init
fn sig_of(p: &Program) -> String {
    let mut names: Vec<String> = p.threads.iter().map(|t| t.iter().map(|o| op_name(o)).collect::<Vec<_>>().join("+")).collect();
    names.sort();
    format!("{:?}|{}", p.init, names.join("||"))
}

pub fn menu() -> Vec<TOp> {
    use keys::{C_X, C_Y};
    vec![
        TOp::Put { k: 0, c: C_X },
        TOp::Put { k: 0, c: C_Y },
        TOp::Put { k: 1, c: C_X },
        TOp::Put { k: 1, c: C_Y },
        TOp::Abort { k: 0, c: C_Y },
        TOp::Remove { k: 0 },
        TOp::Remove { k: 1 },
        TOp::RemoveRangeAll,
        TOp::Get { k: 0 },
        TOp::GetRange { k: 0 },
        TOp::GetReader { k: 0 },
        TOp::GetSize { k: 0 },
        TOp::Iterate,
        TOp::Checkpoint,
        TOp::DeleteOrphans,
        TOp::Quarantine,
        TOp::DeleteOrphan,
    ]
}

pub fn programs(tier: &str) -> Vec<(Program, Option<usize>)> {
    let m = menu();
    let mut v: Vec<(Program, Option<usize>)> = Vec::new();
    let big = Cfg { n: 10_000, async_mode: false };
    let one = Cfg { n: 1, async_mode: false };
    let inits = [Init::Empty, Init::A, Init::AB, Init::AOrphan];
    // all unordered pairs of single operations, unbounded
    let quick = tier == "quick";
    for init in inits {
        for i in 0..m.len() {
            for j in i..m.len() {
                let (a, b) = (m[i], m[j]);
                if a.is_read() && b.is_read() {
                    continue;
                }
                // quick tier: get_size is index-only; get_range only against puts (it clamps with the recorded size); the empty store only for writer pairs
                if quick && (matches!(a, TOp::GetSize { .. }) || matches!(b, TOp::GetSize { .. })) {
                    continue;
                }
                if quick && (matches!(a, TOp::GetRange { .. }) || matches!(b, TOp::GetRange { .. })) && !(matches!(a, TOp::Put { k: 0, .. }) || matches!(b, TOp::Put { k: 0, .. })) {
                    continue;
                }
                if quick && init == Init::Empty && (a.is_read() || b.is_read() || matches!(a, TOp::Checkpoint) || matches!(b, TOp::Checkpoint)) {
                    continue;
                }
                // quick tier: the orphan store adds something over a=X only for clean-up operations and puts of the orphaned content
                let touches_orphan = |o: &TOp| o.is_cleanup() || matches!(o, TOp::Put { c, .. } | TOp::Abort { c, .. } if *c == keys::C_Y);
                if quick && init == Init::AOrphan && !(touches_orphan(&a) || touches_orphan(&b)) {
                    continue;
                }
                if (a.is_cleanup() || b.is_cleanup()) && init != Init::AOrphan {
                    continue;
                }
                v.push((Program { cfg: big, init, threads: vec![vec![a], vec![b]], vis: 0, fault: None }, None));
            }
        }
    }
    // rollover checkpoints inside the operations (N=1)
    for i in 0..m.len() {
        for j in i..m.len() {
            let (a, b) = (m[i], m[j]);
            if (a.is_read() && b.is_read()) || a.is_cleanup() || b.is_cleanup() {
                continue;
            }
            if quick && (a.is_read() || b.is_read() || matches!(a, TOp::Abort { .. }) || matches!(b, TOp::Abort { .. })) {
                continue;
            }
            v.push((Program { cfg: one, init: Init::A, threads: vec![vec![a], vec![b]], vis: 0, fault: None }, None));
        }
    }
    use keys::{C_H, C_X, C_Y};
    let w = |k, c| TOp::Put { k, c };
    // three actors
    let writers = [w(0, C_X), w(0, C_Y), w(1, C_X), w(1, C_Y), TOp::Remove { k: 0 }, TOp::RemoveRangeAll];
    let thirds = [TOp::Get { k: 0 }, TOp::GetReader { k: 0 }, TOp::Remove { k: 0 }, TOp::Remove { k: 1 }, TOp::Checkpoint, w(1, C_X), TOp::DeleteOrphans];
    let b3 = if tier == "quick" { 2 } else { 3 };
    for (wi, a) in writers.iter().enumerate() {
        for b in writers.iter().skip(wi) {
            for c in thirds.iter() {
                let full = tier != "quick";
                let same_key_or_content = match (a, b) {
                    (TOp::Put { k: k1, c: c1 }, TOp::Put { k: k2, c: c2 }) => k1 == k2 || c1 == c2,
                    _ => false,
                };
                let interesting = same_key_or_content && matches!(c, TOp::Remove { k: 0 } | TOp::Get { .. } | TOp::DeleteOrphans);
                if !full && !interesting {
                    continue;
                }
                let init = if c.is_cleanup() { Init::AOrphan } else { Init::AB };
                v.push((Program { cfg: big, init, threads: vec![vec![*a], vec![*b], vec![*c]], vis: 0, fault: None }, Some(b3)));
            }
        }
    }
    // large content (150 KiB) whose only reference is removed / overwritten while another key receives the same content
    for (a, b) in [(TOp::Remove { k: 0 }, w(1, C_H)), (w(0, C_X), w(1, C_H)), (TOp::RemoveRangeAll, w(1, C_H)), (w(0, C_H), w(1, C_H)), (TOp::Get { k: 0 }, w(0, C_X))] {
        v.push((Program { cfg: big, init: Init::AH, threads: vec![vec![a], vec![b]], vis: 0, fault: None }, None));
    }
    // a damaged store (blob length differs from the index): readers against writers must still all return
    for (a, b) in [(TOp::Get { k: 0 }, w(0, C_Y)), (TOp::GetReader { k: 0 }, TOp::Remove { k: 0 }), (TOp::GetRange { k: 0 }, w(1, C_X)), (TOp::Get { k: 0 }, TOp::Checkpoint)] {
        v.push((Program { cfg: big, init: Init::ADamaged, threads: vec![vec![a], vec![b]], vis: 0, fault: None }, None));
    }
    // transactions on the same key / same content with staging/ calls visible (C13: "a concurrent transaction on the same key is unaffected")
    for (a, b) in [(w(0, C_X), w(0, C_Y)), (w(0, C_X), TOp::Abort { k: 0, c: C_Y }), (TOp::Abort { k: 0, c: C_Y }, TOp::Abort { k: 0, c: C_Y }), (w(0, C_Y), w(1, C_Y))] {
        v.push((Program { cfg: big, init: Init::A, threads: vec![vec![a], vec![b]], vis: 1, fault: None }, if tier == "quick" { Some(3) } else { Some(5) }));
    }
    // fault x schedule: the k-th mutating filesystem call of T0 fails (EIO) while the other threads run; every k up to the
    // number of such calls a put / remove can make (programs whose k is never reached equal their fault-free version)
    {
        let q = tier == "quick";
        let mut base: Vec<(Cfg, Init, Vec<Vec<TOp>>, Option<usize>, u64)> = vec![
            (big, Init::A, vec![vec![w(0, C_Y)], vec![w(1, C_Y)], vec![TOp::Remove { k: 0 }]], Some(if q { 1 } else { 2 }), 12),
            (big, Init::A, vec![vec![w(1, C_X)], vec![TOp::Remove { k: 0 }]], None, 12),
            (big, Init::A, vec![vec![w(0, C_Y)], vec![TOp::Get { k: 0 }]], None, 12),
            (one, Init::A, vec![vec![w(0, C_Y)], vec![w(1, C_Y)]], Some(if q { 1 } else { 3 }), 24),
        ];
        if !q {
            base.push((big, Init::AB, vec![vec![TOp::Remove { k: 0 }], vec![w(1, C_Y)]], None, 8));
            base.push((big, Init::A, vec![vec![w(0, C_Y)], vec![w(0, C_Y)], vec![TOp::Remove { k: 0 }]], Some(2), 12));
            base.push((one, Init::A, vec![vec![w(0, C_Y)], vec![TOp::Remove { k: 0 }]], Some(3), 24));
            base.push((one, Init::A, vec![vec![w(0, C_Y)], vec![w(1, C_Y)], vec![TOp::Remove { k: 0 }]], Some(1), 24));
            base.push((big, Init::AOrphan, vec![vec![w(1, C_Y)], vec![TOp::DeleteOrphans]], None, 12));
        }
        for (cfg, init, threads, bound, kmax) in base {
            for k in 1..=kmax {
                v.push((Program { cfg, init, threads: threads.clone(), vis: 0, fault: Some((0, k)) }, bound));
            }
        }
    }
    // four actors (thorough): two writers on the same key/content, a remover and a reader or clean-up
    if tier != "quick" {
        for (a, b) in [(w(0, C_X), w(0, C_Y)), (w(0, C_X), w(1, C_X)), (w(0, C_Y), w(1, C_Y))] {
            for c in [TOp::Remove { k: 0 }, TOp::RemoveRangeAll] {
                for d in [TOp::Get { k: 0 }, TOp::GetReader { k: 0 }, TOp::Checkpoint, TOp::DeleteOrphans] {
                    let init = if d.is_cleanup() { Init::AOrphan } else { Init::AB };
                    v.push((Program { cfg: big, init, threads: vec![vec![a], vec![b], vec![c], vec![d]], vis: 0, fault: None }, Some(2)));
                }
            }
        }
    }
    // two operations per thread
    if tier != "quick" {
        for init in [Init::A, Init::AB] {
            for a1 in writers.iter() {
                for a2 in [w(0, C_X), TOp::Remove { k: 0 }, TOp::Get { k: 0 }] {
                    for b1 in writers.iter() {
                        for b2 in [w(1, C_X), TOp::Remove { k: 1 }, TOp::Get { k: 0 }, TOp::Checkpoint] {
                            v.push((Program { cfg: big, init, threads: vec![vec![*a1, a2], vec![*b1, b2]], vis: 0, fault: None }, Some(3)));
                        }
                    }
                }
            }
        }
    } else {
        v.push((Program { cfg: big, init: Init::A, threads: vec![vec![w(0, C_X), TOp::Get { k: 0 }], vec![w(0, C_Y), TOp::Remove { k: 0 }]], vis: 0, fault: None }, Some(2)));
        v.push((Program { cfg: big, init: Init::AB, threads: vec![vec![TOp::Abort { k: 0, c: C_Y }, w(0, C_X)], vec![w(0, C_Y), TOp::Get { k: 0 }]], vis: 0, fault: None }, Some(2)));
    }
    v
}

/// Programs relevant to a property for which SCHED is a secondary engine (quick tier only).
fn relevant(p: &Program, prop: &str) -> bool {
    let ops: Vec<&TOp> = p.threads.iter().flatten().collect();
    let writers = ops.iter().filter(|o| matches!(o, TOp::Put { .. } | TOp::Remove { .. } | TOp::RemoveRangeAll)).count();
    if p.fault.is_some() {
        return matches!(prop, "C14" | "C04");
    }
    match prop {
        "C14" => false,
        "C13" => ops.iter().any(|o| matches!(o, TOp::Abort { .. })) || p.vis == 1,
        // snapshots taken concurrently with writers: explicit checkpoints and rollover checkpoints (N=1)
        "C20" | "C02" => writers >= 1 && (ops.iter().any(|o| matches!(o, TOp::Checkpoint)) || p.cfg.n == 1),
        "C08" => ops.iter().any(|o| o.is_cleanup()),
        _ if p.init == Init::ADamaged => prop == "C15",
        "C07" => ops.iter().all(|o| !o.is_read()) && writers >= 1 && (p.init == Init::AB || p.cfg.n == 1 || p.threads.len() > 2),
        "C06" => writers >= 1 && ops.iter().all(|o| matches!(o, TOp::Put { .. } | TOp::Remove { .. } | TOp::RemoveRangeAll | TOp::GetReader { .. } | TOp::Abort { .. })) && p.init != Init::Empty,
        _ => true,
    }
}

pub fn run(tier: &str, slice: (u64, u64), seed: u64, prop: &str) -> WorkerResult {
    crate::shim::require();
    let mut res = WorkerResult::new("sched");
    let mut ps = programs(tier);
    // properties for which SCHED is a secondary engine run the relevant subset in both tiers (their thorough tier is deeper
    // because the thorough program list is: more triples, four threads, two operations per thread, higher bounds)
    ps.retain(|(p, _)| relevant(p, prop));
    let total = ps.len();
    let cap = if tier == "quick" { 4_000 } else { 60_000 };
    for (j, (p, bound)) in ps.iter().enumerate() {
        if (j as u64 + seed) % slice.1 != slice.0 {
            continue;
        }
        for v in explore_program(p, *bound, cap, &mut res) {
            res.violate(v);
        }
        if res.samples.len() < 2 {
            res.sample(json!({"program": p.show(), "bound": bound}));
        }
    }
    if slice.0 == 0 {
        res.completed.push(format!("{total} programs{}: all unordered pairs of single operations from a 17-op menu on 4 initial stores (N=10000) and on a=X with N=1 (rollover checkpoint inside every write): every interleaving, no preemption bound; three-thread programs with <= {} preemptions; two-ops-per-thread programs", if prop == "C14" { " (only the fault x schedule programs: T0's k-th mutating filesystem call fails with EIO, every k, while one or two other threads put / remove / read; of the following)".to_string() } else if matches!(prop, "C13" | "C08" | "C07" | "C06" | "C20" | "C02") { format!(" (the subset of the following relevant to {prop})") } else { String::new() }, if tier == "quick" { 2 } else { 3 }));
    }
    res
}

pub fn replay(case: &Value) -> Vec<Violation> {
    crate::shim::require();
    let p: Program = serde_json::from_value(case["program"].clone()).expect("program");
    let schedule: Vec<usize> = serde_json::from_value(case["schedule"].clone()).expect("schedule");
    let tmpl = template(&p.cfg, p.init);
    let out = run_one(&p, &tmpl, &schedule, true, &mut Default::default());
    if let Outcome::Diverged(d) = &out.exec.outcome {
        eprintln!("MACHINERY: schedule diverged on replay: {d}");
        std::process::exit(2);
    }
    out.findings
        .into_iter()
        .map(|(props, oracle, detail)| {
            let mut v = Violation::new(&props, &oracle, detail);
            v.sig = format!("{oracle}|{}", sig_of(&p));
            v
        })
        .collect()
}

#[allow(dead_code)]
fn _unused(_: &[u8]) -> String {
    hex(&[])
}
