//! cvh — bounded-exhaustive exploration harness for cassadilia.
//!
//!   cvh <engine> --tier quick|thorough --slice i/n --out <file> [--seed s]
//!   cvh replay <file>

mod alloc;
mod conc;
mod crash;
mod fault;
mod input;
mod keys;
mod model;
mod ondisk;
mod open;
mod ops;
mod plant;
mod power;
mod real;
mod report;
mod sched;
mod seq;
mod seqtx;
mod shim;
mod util;
mod waldmg;

use report::WorkerResult;

#[global_allocator]
static GLOBAL: alloc::Counting = alloc::Counting;
use serde_json::Value;

struct Args {
    tier: String,
    slice: (u64, u64),
    seed: u64,
    out: Option<String>,
    rest: Vec<String>,
}

fn parse_args(args: &[String]) -> Args {
    let mut a = Args { tier: "quick".into(), slice: (0, 1), seed: 0, out: None, rest: vec![] };
    let mut i = 0;
    while i < args.len() {
        match args[i].as_str() {
            "--tier" => {
                a.tier = args[i + 1].clone();
                i += 1;
            }
            "--slice" => {
                let (x, y) = args[i + 1].split_once('/').expect("--slice i/n");
                a.slice = (x.parse().unwrap(), y.parse().unwrap());
                i += 1;
            }
            "--seed" => {
                a.seed = args[i + 1].parse().unwrap_or(0);
                i += 1;
            }
            "--out" => {
                a.out = Some(args[i + 1].clone());
                i += 1;
            }
            other => a.rest.push(other.to_string()),
        }
        i += 1;
    }
    a
}

fn finish(res: WorkerResult, out: &Option<String>) {
    let js = serde_json::to_string(&res.to_json()).unwrap();
    match out {
        Some(p) => std::fs::write(p, js).expect("write result"),
        None => println!("{js}"),
    }
}

fn main() {
    let argv: Vec<String> = std::env::args().collect();
    if argv.len() < 2 {
        eprintln!("usage: cvh <engine>|replay ...");
        std::process::exit(2);
    }
    util::quiet_panics();
    let code = match argv[1].as_str() {
        "replay" => {
            let text = std::fs::read_to_string(&argv[2]).expect("read replay file");
            let v: Value = serde_json::from_str(&text).expect("parse replay file");
            let case = if v.get("replay").is_some() { v["replay"].clone() } else { v };
            let vs = replay(&case);
            for x in &vs {
                println!("REPRODUCED props={:?} oracle={} :: {}", x.props, x.oracle, x.detail);
            }
            if vs.is_empty() {
                println!("no violation on replay");
            }
            util::cleanup_scratch();
            if vs.is_empty() { 0 } else { 1 }
        }
        "kill-child" => {
            crash::kill_child(&argv[2..]);
            0
        }
        "open-child" => {
            open::owner_child(&argv[2..]);
            0
        }
        "input-child" => {
            input::child_main(&argv[2..]);
            util::cleanup_scratch();
            0
        }
        engine => {
            let a = parse_args(&argv[2..]);
            let prop = a.rest.iter().position(|x| x == "--prop").and_then(|i| a.rest.get(i + 1)).cloned().unwrap_or_default();
            let res = match engine {
                "seq" => seq::run(&a.tier, a.slice, a.seed, &prop),
                "seqtx" => seqtx::run(&a.tier, a.slice, a.seed),
                "crash" => crash::run(&a.tier, a.slice, a.seed),
                "fault" => fault::run(&a.tier, a.slice, a.seed),
                "input" => input::run(&a.tier, a.slice, a.seed, &prop),
                "waldmg" => waldmg::run(&a.tier, a.slice, a.seed),
                "plant" => plant::run(&a.tier, a.slice, a.seed),
                "sched" => conc::run(&a.tier, a.slice, a.seed, &prop),
                "open" => open::run(&a.tier, a.slice, a.seed, &prop),
                "power" => power::run(&a.tier, a.slice, a.seed),
                _ => {
                    eprintln!("unknown engine {engine}");
                    std::process::exit(2);
                }
            };
            let _ = &a.rest;
            finish(res, &a.out);
            util::cleanup_scratch();
            0
        }
    };
    std::process::exit(code);
}

pub fn replay(case: &Value) -> Vec<report::Violation> {
    match case["engine"].as_str().unwrap_or("") {
        "seq" => seq::replay(case),
        "seqtx" => seqtx::replay(case),
        "crash" => crash::replay(case),
        "fault" => fault::replay(case),
        "input" => input::replay(case),
        "waldmg" => waldmg::replay(case),
        "plant" => plant::replay(case),
        "sched" => conc::replay(case),
        "open" => open::replay(case),
        "power" => power::replay(case),
        e => {
            eprintln!("cannot replay engine {e:?}");
            std::process::exit(2);
        }
    }
}
