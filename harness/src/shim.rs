//! Rust side of the LD_PRELOAD interposer (shim/fsshim.c): event classification, fd table, handler plumbing.

use std::cell::Cell;
use std::collections::HashMap;
use std::ffi::{CStr, c_char, c_int, c_void};
use std::sync::{Arc, Mutex, RwLock};

#[repr(C)]
struct RawCall {
    kind: c_int,
    fd: c_int,
    fd2: c_int,
    flags: c_int,
    path: *const c_char,
    path2: *const c_char,
    buf: *const c_void,
    off: i64,
    len: i64,
}

#[derive(Clone, Copy, Debug, PartialEq, Eq, Hash)]
pub enum Kind {
    Open,
    Write,
    Pwrite,
    Fsync,
    Fdatasync,
    Rename,
    Unlink,
    Rmdir,
    Mkdir,
    Link,
    Symlink,
    Truncate,
    Ftruncate,
    Fallocate,
    CopyRange,
    Sendfile,
    Flock,
    Close,
    Stat,
    SyncRange,
    Other,
}

fn kind_of(k: c_int) -> Kind {
    use Kind::*;
    match k {
        1 => Open,
        2 => Write,
        3 => Pwrite,
        4 => Fsync,
        5 => Fdatasync,
        6 => Rename,
        7 => Unlink,
        8 => Rmdir,
        9 => Mkdir,
        10 => Link,
        11 => Symlink,
        12 => Truncate,
        13 => Ftruncate,
        14 => Fallocate,
        15 => CopyRange,
        16 => Sendfile,
        17 => Flock,
        18 => Close,
        19 => Stat,
        20 => SyncRange,
        _ => Other,
    }
}

/// One intercepted call on a path / fd under the armed root.
#[derive(Clone, Debug)]
pub struct Event<'a> {
    pub kind: Kind,
    /// path relative to the armed root (for fd calls: the path the fd was opened with)
    pub rel: String,
    /// second path (rename/link target), relative to the root; None if outside
    pub rel2: Option<String>,
    pub fd: i32,
    pub flags: i32,
    pub off: i64,
    pub len: i64,
    pub data: &'a [u8],
    /// changes (or makes durable) on-disk state
    pub mutating: bool,
    /// sync-type call
    pub sync: bool,
}

impl Event<'_> {
    pub fn show(&self) -> String {
        match self.kind {
            Kind::Open => format!("open({},{})", self.rel, open_flags(self.flags)),
            Kind::Write | Kind::Pwrite => format!("write({},{}B)", self.rel, self.len),
            Kind::Rename | Kind::Link => format!("{:?}({} -> {})", self.kind, self.rel, self.rel2.as_deref().unwrap_or("<outside>")).to_lowercase(),
            k => format!("{:?}({})", k, self.rel).to_lowercase(),
        }
    }
    /// stable call-site class for signatures: kind + file class
    pub fn site(&self) -> String {
        format!("{:?}:{}", self.kind, file_class(&self.rel)).to_lowercase()
    }
}

pub fn file_class(rel: &str) -> &'static str {
    if rel.ends_with("_index.wal") {
        "wal"
    } else if rel == "index.tmp" {
        "index.tmp"
    } else if rel == "index" {
        "index"
    } else if rel.starts_with("staging") {
        "staging"
    } else if rel.starts_with("cas") {
        "cas"
    } else if rel.starts_with("db_settings") {
        "settings"
    } else if rel == "LOCK" {
        "lock"
    } else if rel.is_empty() {
        "root"
    } else {
        "other"
    }
}

fn open_flags(f: i32) -> String {
    let mut v = vec![match f & libc::O_ACCMODE {
        libc::O_RDONLY => "r",
        libc::O_WRONLY => "w",
        _ => "rw",
    }];
    for (bit, name) in [(libc::O_CREAT, "creat"), (libc::O_TRUNC, "trunc"), (libc::O_APPEND, "append"), (libc::O_EXCL, "excl")] {
        if f & bit != 0 {
            v.push(name);
        }
    }
    v.join("|")
}

#[derive(Clone, Copy, Debug)]
pub enum Phase {
    Pre,
    Post { ret: i64, err: i32 },
}

/// Handler: called for events of participant threads. In `Pre` the return value is 0 (proceed) or an errno to fail with.
pub type Handler = dyn Fn(&Event<'_>, Phase) -> i32 + Send + Sync;

static ROOT: RwLock<Option<String>> = RwLock::new(None);
static HANDLER: RwLock<Option<Arc<Handler>>> = RwLock::new(None);
static FDS: Mutex<Option<HashMap<i32, String>>> = Mutex::new(None);

thread_local! {
    static PARTICIPANT: Cell<bool> = const { Cell::new(false) };
}

/// When > 0: fdatasync/fsync calls made by NON-participant threads (the store's Async sync thread) on files under the
/// armed root are delayed by this many milliseconds, so that "syncs still pending" is a state a test can rely on.
pub static BACKGROUND_SYNC_DELAY_MS: std::sync::atomic::AtomicU64 = std::sync::atomic::AtomicU64::new(0);

type InstallFn = unsafe extern "C" fn(Option<unsafe extern "C" fn(*const RawCall) -> c_int>, Option<unsafe extern "C" fn(*const RawCall, i64, c_int)>);
type PassFn = unsafe extern "C" fn(c_int);

fn sym(name: &CStr) -> *mut c_void {
    unsafe { libc::dlsym(libc::RTLD_DEFAULT, name.as_ptr()) }
}

pub fn present() -> bool {
    !sym(c"fsshim_install").is_null()
}

pub fn require() {
    if !present() {
        eprintln!("MACHINERY: fsshim is not preloaded (run through bin/check, or set LD_PRELOAD=/verif/.cache/fsshim.so)");
        std::process::exit(2);
    }
}

/// This thread's filesystem calls count (or not).
pub fn participate(on: bool) {
    PARTICIPANT.with(|p| p.set(on));
}

pub fn is_participant() -> bool {
    PARTICIPANT.with(|p| p.get())
}

/// Run `f` with the shim passing everything through for this thread (harness-internal I/O).
pub fn passthrough<T>(f: impl FnOnce() -> T) -> T {
    let p = sym(c"fsshim_passthrough");
    if p.is_null() {
        return f();
    }
    let pf: PassFn = unsafe { std::mem::transmute(p) };
    unsafe { pf(1) };
    let r = f();
    unsafe { pf(0) };
    r
}

pub fn arm(root: &std::path::Path, handler: Arc<Handler>) {
    require();
    *ROOT.write().unwrap() = Some(root.to_string_lossy().into_owned());
    *FDS.lock().unwrap() = Some(HashMap::new());
    *HANDLER.write().unwrap() = Some(handler);
    let p = sym(c"fsshim_install");
    let f: InstallFn = unsafe { std::mem::transmute(p) };
    unsafe { f(Some(pre_cb), Some(post_cb)) };
}

pub fn disarm() {
    let p = sym(c"fsshim_install");
    if !p.is_null() {
        let f: InstallFn = unsafe { std::mem::transmute(p) };
        unsafe { f(None, None) };
    }
    *HANDLER.write().unwrap() = None;
    *ROOT.write().unwrap() = None;
    *FDS.lock().unwrap() = None;
}

fn rel_of(root: &str, p: *const c_char) -> Option<String> {
    if p.is_null() {
        return None;
    }
    let s = unsafe { CStr::from_ptr(p) }.to_string_lossy();
    if s == root {
        return Some(String::new());
    }
    let rest = s.strip_prefix(root)?;
    let rest = rest.strip_prefix('/')?;
    Some(rest.trim_end_matches('/').to_string())
}

fn classify<'a>(c: &'a RawCall) -> Option<Event<'a>> {
    let root = ROOT.read().unwrap().clone()?;
    let kind = kind_of(c.kind);
    let (rel, rel2) = match kind {
        Kind::Open | Kind::Unlink | Kind::Rmdir | Kind::Mkdir | Kind::Truncate | Kind::Stat => (rel_of(&root, c.path)?, None),
        Kind::Rename | Kind::Link | Kind::Symlink => {
            let a = rel_of(&root, c.path);
            let b = rel_of(&root, c.path2);
            match (a, b) {
                (Some(a), b) => (a, b),
                // something moved in from outside: report under the destination
                (None, Some(b)) => (b.clone(), Some(b)),
                (None, None) => return None,
            }
        }
        _ => {
            let fds = FDS.lock().unwrap();
            (fds.as_ref()?.get(&c.fd)?.clone(), None)
        }
    };
    let wr = c.flags & (libc::O_CREAT | libc::O_TRUNC | libc::O_APPEND) != 0 || (c.flags & libc::O_ACCMODE) != libc::O_RDONLY;
    let mutating = match kind {
        Kind::Open => wr,
        Kind::Close | Kind::Stat | Kind::Flock | Kind::Other => false,
        _ => true,
    };
    let sync = matches!(kind, Kind::Fsync | Kind::Fdatasync | Kind::SyncRange);
    let data: &[u8] = if !c.buf.is_null() && c.len > 0 && matches!(kind, Kind::Write | Kind::Pwrite) {
        unsafe { std::slice::from_raw_parts(c.buf as *const u8, c.len as usize) }
    } else {
        &[]
    };
    Some(Event { kind, rel, rel2, fd: c.fd, flags: c.flags, off: c.off, len: c.len, data, mutating, sync })
}

unsafe extern "C" fn pre_cb(c: *const RawCall) -> c_int {
    let c = unsafe { &*c };
    if !is_participant() {
        let d = BACKGROUND_SYNC_DELAY_MS.load(std::sync::atomic::Ordering::Relaxed);
        if d > 0 && matches!(kind_of(c.kind), Kind::Fdatasync | Kind::Fsync) && FDS.lock().unwrap().as_ref().map_or(false, |t| t.contains_key(&c.fd)) {
            std::thread::sleep(std::time::Duration::from_millis(d));
        }
        return 0;
    }
    let r = std::panic::catch_unwind(|| {
        let Some(ev) = classify(c) else { return 0 };
        let h = HANDLER.read().unwrap().clone();
        match h {
            Some(h) => h(&ev, Phase::Pre),
            None => 0,
        }
    });
    match r {
        Ok(v) => v,
        Err(_) => {
            eprintln!("MACHINERY: panic inside shim pre-callback");
            std::process::abort();
        }
    }
}

unsafe extern "C" fn post_cb(c: *const RawCall, ret: i64, err: c_int) {
    let c = unsafe { &*c };
    let r = std::panic::catch_unwind(|| {
        // fd table is maintained for every thread
        let kind = kind_of(c.kind);
        let ev = if is_participant() { classify(c) } else { None };
        if kind == Kind::Open && ret >= 0 {
            if let Some(root) = ROOT.read().unwrap().clone() {
                let mut fds = FDS.lock().unwrap();
                if let Some(t) = fds.as_mut() {
                    match rel_of(&root, c.path) {
                        Some(rel) => {
                            t.insert(ret as i32, rel);
                        }
                        None => {
                            t.remove(&(ret as i32));
                        }
                    }
                }
            }
        }
        if kind == Kind::Close && ret == 0 {
            if let Some(t) = FDS.lock().unwrap().as_mut() {
                t.remove(&c.fd);
            }
        }
        if let Some(ev) = ev {
            if let Some(h) = HANDLER.read().unwrap().clone() {
                h(&ev, Phase::Post { ret, err });
            }
        }
    });
    if r.is_err() {
        eprintln!("MACHINERY: panic inside shim post-callback");
        std::process::abort();
    }
}
