//! Operation alphabet, configurations and sequence enumeration.

use crate::keys::{self, HKey};
use serde::{Deserialize, Serialize};
use std::ops::Bound;

#[derive(Clone, Copy, Debug, PartialEq, Eq, Hash, Serialize, Deserialize, PartialOrd, Ord)]
pub enum B {
    Unb,
    Inc(u8),
    Exc(u8),
}

impl B {
    pub fn to_bound<K: HKey>(self) -> Bound<K> {
        match self {
            B::Unb => Bound::Unbounded,
            B::Inc(k) => Bound::Included(K::make(k).unwrap()),
            B::Exc(k) => Bound::Excluded(K::make(k).unwrap()),
        }
    }
}

/// A range the reference `BTreeMap::range` accepts (it panics on inverted / empty-excluded ones).
pub fn range_ok<K: HKey>(lo: B, hi: B) -> bool {
    let k = |b: B| match b {
        B::Unb => None,
        B::Inc(i) | B::Exc(i) => Some(K::make(i).unwrap()),
    };
    match (k(lo), k(hi)) {
        (Some(a), Some(b)) => {
            if a > b {
                return false;
            }
            if a == b && (matches!(lo, B::Exc(_)) && matches!(hi, B::Exc(_))) {
                return false;
            }
            // BTreeMap::range also panics for (Excluded(x), Included(x))? No: only Excluded/Excluded equal and start > end.
            true
        }
        _ => true,
    }
}

pub fn all_ranges<K: HKey>(keys: &[u8]) -> Vec<(B, B)> {
    let mut bs = vec![B::Unb];
    for &k in keys {
        bs.push(B::Inc(k));
        bs.push(B::Exc(k));
    }
    let mut v = Vec::new();
    for &lo in &bs {
        for &hi in &bs {
            if range_ok::<K>(lo, hi) {
                v.push((lo, hi));
            }
        }
    }
    v
}

#[derive(Clone, Copy, Debug, PartialEq, Eq, Hash, Serialize, Deserialize)]
pub enum Op {
    Put { k: u8, c: u8, ch: u8 },
    Abort { k: u8, c: u8, ch: u8 },
    Remove { k: u8 },
    RemoveRange { lo: B, hi: B },
    Checkpoint,
    Reopen,
}

impl Op {
    pub fn show<K: HKey>(&self) -> String {
        let b = |b: B, open: bool| match (b, open) {
            (B::Unb, true) => "(..".to_string(),
            (B::Unb, false) => "..)".to_string(),
            (B::Inc(k), true) => format!("[{}", K::label(k)),
            (B::Exc(k), true) => format!("({}", K::label(k)),
            (B::Inc(k), false) => format!("{}]", K::label(k)),
            (B::Exc(k), false) => format!("{})", K::label(k)),
        };
        match *self {
            Op::Put { k, c, ch } => format!("put {}={}/{}", K::label(k), keys::content_name(c), ch),
            Op::Abort { k, c, ch } => format!("abort {}={}/{}", K::label(k), keys::content_name(c), ch),
            Op::Remove { k } => format!("remove {}", K::label(k)),
            Op::RemoveRange { lo, hi } => format!("remove_range {},{}", b(lo, true), b(hi, false)),
            Op::Checkpoint => "checkpoint".into(),
            Op::Reopen => "reopen".into(),
        }
    }
    pub fn keys(&self) -> Vec<u8> {
        match *self {
            Op::Put { k, .. } | Op::Abort { k, .. } | Op::Remove { k } => vec![k],
            _ => vec![],
        }
    }
}

pub fn show_seq<K: HKey>(ops: &[Op]) -> String {
    ops.iter().map(|o| o.show::<K>()).collect::<Vec<_>>().join(" ; ")
}

#[derive(Clone, Copy, Debug, PartialEq, Eq, Hash, Serialize, Deserialize)]
pub struct Cfg {
    pub n: u64,
    pub async_mode: bool,
}

impl Cfg {
    pub fn config(&self) -> cassadilia::Config {
        cassadilia::Config {
            sync_mode: if self.async_mode { cassadilia::SyncMode::Async } else { cassadilia::SyncMode::Sync },
            num_ops_per_wal: std::num::NonZeroU64::new(self.n).unwrap(),
            ..Default::default()
        }
    }
    pub fn show(&self) -> String {
        format!("N={} {}", self.n, if self.async_mode { "Async" } else { "Sync" })
    }
}

/// Decode sequence number `idx` (base |alphabet|, most significant symbol first) of length `d`.
pub fn seq_of(alphabet: &[Op], d: usize, mut idx: u64) -> Vec<Op> {
    let a = alphabet.len() as u64;
    let mut v = vec![alphabet[0]; d];
    for i in (0..d).rev() {
        v[i] = alphabet[(idx % a) as usize];
        idx /= a;
    }
    v
}

pub fn seq_count(alphabet: &[Op], d: usize) -> u64 {
    (alphabet.len() as u64).pow(d as u32)
}

/// Named alphabets, simplest first.
pub fn alphabet(name: &str) -> Vec<Op> {
    use keys::*;
    let put = |k, c| Op::Put { k, c, ch: 0 };
    let mut v = Vec::new();
    match name {
        // 8 symbols: two keys, two contents, remove, range-all
        "tiny" => {
            v.extend([put(0, C_X), put(0, C_Y), put(1, C_X), Op::Remove { k: 0 }, Op::Remove { k: 1 }]);
            v.push(Op::RemoveRange { lo: B::Unb, hi: B::Unb });
            v.extend([Op::Checkpoint, Op::Reopen]);
        }
        // three keys whose contents alternate in key order (a=X, b=Y, c=X): sharers that are not neighbours in the snapshot
        "three" => {
            v.extend([put(0, C_X), put(1, C_Y), put(2, C_X), put(1, C_X), Op::Remove { k: 0 }, Op::Remove { k: 2 }]);
            v.extend([Op::Checkpoint, Op::Reopen]);
        }
        // 14 symbols
        "base" => {
            v.extend([put(0, C_X), put(0, C_Y), put(1, C_X), put(1, C_Y), put(0, C_E)]);
            v.push(Op::Abort { k: 0, c: C_Y, ch: 0 });
            v.extend([Op::Remove { k: 0 }, Op::Remove { k: 1 }]);
            v.push(Op::RemoveRange { lo: B::Unb, hi: B::Unb });
            v.push(Op::RemoveRange { lo: B::Inc(0), hi: B::Exc(1) });
            v.push(Op::RemoveRange { lo: B::Exc(0), hi: B::Unb });
            v.extend([Op::Checkpoint, Op::Reopen]);
            v.push(Op::Put { k: 1, c: C_Y, ch: 1 });
        }
        // wider universe: third key (empty), big content, more ranges and chunkings
        "wide" => {
            for k in [0u8, 1, 2] {
                for c in [C_X, C_Y] {
                    v.push(put(k, c));
                }
            }
            v.push(put(0, C_E));
            v.push(put(1, C_L));
            v.push(Op::Put { k: 0, c: C_L, ch: 1 });
            v.push(Op::Put { k: 0, c: C_L, ch: 3 });
            v.push(Op::Put { k: 1, c: C_H, ch: 3 });
            v.push(Op::Put { k: 2, c: C_X, ch: 2 });
            v.push(Op::Abort { k: 0, c: C_L, ch: 1 });
            v.push(Op::Abort { k: 1, c: C_X, ch: 0 });
            v.push(Op::Abort { k: 1, c: C_M, ch: 4 });
            v.push(Op::Abort { k: 0, c: C_Y, ch: 5 });
            for k in [0u8, 1, 2] {
                v.push(Op::Remove { k });
            }
            for (lo, hi) in [
                (B::Unb, B::Unb),
                (B::Inc(2), B::Inc(0)),
                (B::Exc(2), B::Exc(1)),
                (B::Inc(0), B::Unb),
                (B::Unb, B::Exc(1)),
                (B::Exc(0), B::Inc(1)),
            ] {
                v.push(Op::RemoveRange { lo, hi });
            }
            v.extend([Op::Checkpoint, Op::Reopen]);
        }
        // for non-string key types (keys 0..3 exist for all types)
        "typed" => {
            for k in [0u8, 1, 2, 3] {
                v.push(put(k, C_X));
            }
            v.push(put(0, C_Y));
            v.push(put(3, C_Y));
            v.extend([Op::Remove { k: 0 }, Op::Remove { k: 3 }]);
            v.push(Op::RemoveRange { lo: B::Unb, hi: B::Unb });
            v.push(Op::RemoveRange { lo: B::Inc(2), hi: B::Exc(0) });
            v.push(Op::RemoveRange { lo: B::Exc(1), hi: B::Unb });
            v.extend([Op::Checkpoint, Op::Reopen]);
        }
        // crash / fault engines: 8 symbols + big key and big blob handled separately
        "crash" => {
            v.extend([put(0, C_X), put(0, C_Y), put(1, C_X), Op::Remove { k: 0 }]);
            v.push(Op::RemoveRange { lo: B::Unb, hi: B::Unb });
            v.extend([Op::Checkpoint, Op::Reopen]);
            v.push(Op::Abort { k: 1, c: C_Y, ch: 0 });
        }
        _ => panic!("unknown alphabet {name}"),
    }
    v
}
