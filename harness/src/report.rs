//! Violations, per-worker results and their JSON form (merged by bin/check).

use serde::{Deserialize, Serialize};
use serde_json::{Value, json};
use std::collections::{BTreeMap, BTreeSet};

#[derive(Clone, Debug, Serialize, Deserialize)]
pub struct Violation {
    /// properties this observation violates
    pub props: Vec<String>,
    /// which oracle fired (stable identifier)
    pub oracle: String,
    /// causal shape used to match known findings (stable across runs)
    pub sig: String,
    pub detail: String,
    /// self-contained case description accepted by `cvh replay`
    pub replay: Value,
}

impl Violation {
    pub fn new(props: &[&str], oracle: &str, detail: String) -> Violation {
        Violation {
            props: props.iter().map(|s| s.to_string()).collect(),
            oracle: oracle.to_string(),
            sig: oracle.to_string(),
            detail,
            replay: Value::Null,
        }
    }
}

#[derive(Default, Debug, Serialize, Deserialize)]
pub struct WorkerResult {
    pub engine: String,
    /// named counters, summed across workers
    pub counters: BTreeMap<String, u64>,
    /// distinct-state hashes, unioned across workers
    pub states: BTreeSet<u64>,
    /// distinct outcome labels, unioned
    pub outcomes: BTreeSet<String>,
    pub samples: Vec<Value>,
    pub violations: Vec<Violation>,
    /// total violations seen (violations may be capped)
    pub violation_count: u64,
    /// last bound completed in full, free text per sub-run
    pub completed: Vec<String>,
    pub capped: bool,
    pub notes: Vec<String>,
}

pub const MAX_KEPT: usize = 40;

impl WorkerResult {
    pub fn new(engine: &str) -> Self {
        WorkerResult { engine: engine.into(), ..Default::default() }
    }
    pub fn count(&mut self, name: &str, by: u64) {
        *self.counters.entry(name.to_string()).or_insert(0) += by;
    }
    pub fn state(&mut self, s: &str) {
        self.states.insert(fnv(s.as_bytes()));
    }
    pub fn sample(&mut self, v: Value) {
        if self.samples.len() < 4 {
            self.samples.push(v);
        }
    }
    pub fn violate(&mut self, v: Violation) {
        self.violation_count += 1;
        // keep one per (props, sig), preferring short details; cap the total
        if self.violations.iter().any(|o| o.sig == v.sig && o.props == v.props) {
            return;
        }
        if self.violations.len() < MAX_KEPT {
            self.violations.push(v);
        }
    }
    pub fn to_json(&self) -> Value {
        json!(self)
    }
}

pub fn fnv(b: &[u8]) -> u64 {
    let mut h = 0xcbf29ce484222325u64;
    for &x in b {
        h ^= x as u64;
        h = h.wrapping_mul(0x100000001b3);
    }
    h
}
