//! CRASH — every boundary between two mutating filesystem calls, nested once more inside recovery
//! (process-kill model). Serves C03, C06, C08, C12, C20.
//!
//! The history is executed once with the shim calling back *before* every mutating call; the callback
//! copies the live directory: that copy *is* crash image k (no model of syscall semantics involved).

use crate::keys::HKey;
use crate::model::Model;
use crate::ondisk;
use crate::ops::{self, Cfg, Op};
use crate::real::{self, Class, Store};
use crate::report::{Violation, WorkerResult};
use crate::shim::{self, Phase};
use crate::util::{self, Image, b3, hex};
use serde_json::{Value, json};
use std::collections::{BTreeMap, BTreeSet};
use std::path::Path;
use std::sync::{Arc, Mutex};

#[derive(Clone, Debug)]
pub struct Snap {
    pub image: Image,
    /// ops[..acked] have returned
    pub acked: usize,
    /// index of the op in flight (None: between ops / during the initial open or the final close)
    pub inflight: Option<usize>,
    /// the mutating call about to be made
    pub site: String,
    pub call: String,
}

#[derive(Default)]
struct Cur {
    acked: usize,
    inflight: Option<usize>,
}

/// Run `f` (which drives the store in `dir`) with a snapshot taken before every mutating call of this thread.
/// Calls that write a blob in place: opening for writing, writing, truncating a file at blob level under cas/
/// (C06: "a blob is never created empty, written, truncated or modified in place"). Filled by `with_snapshots`.
pub static IN_PLACE: Mutex<Vec<String>> = Mutex::new(Vec::new());
/// When k > 0: the k-th rename into cas/ fails with EXDEV ("crosses devices"), as if a shard directory were a mount point.
pub static EXDEV_AT: std::sync::atomic::AtomicU64 = std::sync::atomic::AtomicU64::new(0);

pub fn with_snapshots<T>(dir: &Path, cur: Arc<Mutex<(usize, Option<usize>)>>, f: impl FnOnce() -> T) -> (T, Vec<Snap>) {
    let snaps: Arc<Mutex<Vec<Snap>>> = Arc::new(Mutex::new(Vec::new()));
    let s2 = snaps.clone();
    let d2 = dir.to_path_buf();
    let c2 = cur.clone();
    let renames = Arc::new(std::sync::atomic::AtomicU64::new(0));
    shim::arm(
        dir,
        Arc::new(move |ev, ph| {
            if let Phase::Pre = ph {
                if ev.mutating {
                    use crate::shim::Kind;
                    let blob_level = ev.rel.starts_with("cas/") && ev.rel.matches('/').count() >= 3;
                    if blob_level && matches!(ev.kind, Kind::Open | Kind::Write | Kind::Pwrite | Kind::Truncate | Kind::Ftruncate | Kind::Fallocate | Kind::CopyRange | Kind::Sendfile) {
                        IN_PLACE.lock().unwrap().push(ev.show());
                    }
                    let (acked, inflight) = *c2.lock().unwrap();
                    s2.lock().unwrap().push(Snap { image: Image::load(&d2), acked, inflight, site: ev.site(), call: ev.show() });
                    let k = EXDEV_AT.load(std::sync::atomic::Ordering::Relaxed);
                    if k > 0 && ev.kind == Kind::Rename && ev.rel2.as_deref().map_or(false, |p| p.starts_with("cas/")) {
                        if renames.fetch_add(1, std::sync::atomic::Ordering::Relaxed) + 1 == k {
                            return libc::EXDEV;
                        }
                    }
                }
            }
            0
        }),
    );
    shim::participate(true);
    let r = f();
    shim::participate(false);
    shim::disarm();
    let (acked, inflight) = *cur.lock().unwrap();
    let mut v = std::mem::take(&mut *snaps.lock().unwrap());
    v.push(Snap { image: Image::load(dir), acked, inflight, site: "end".into(), call: "end of history".into() });
    (r, v)
}

pub struct History<K: HKey> {
    pub snaps: Vec<Snap>,
    /// model after prefix + ops[..i], for i in 0..=ops.len()
    pub models: Vec<Model<K>>,
    pub error: Option<String>,
}

/// Prefix (clean, unarmed) then the explored history in snapshot mode, including its opening `open` and final drop.
pub fn run_history<K: HKey>(dir: &Path, cfg: &Cfg, prefix: &[Op], opsq: &[Op]) -> History<K> {
    let mut model = Model::<K>::default();
    if !prefix.is_empty() {
        let mut st = Store::<K>::open(dir, cfg.config()).expect("prefix open");
        for op in prefix {
            st.apply(op).expect("prefix op");
            model.apply(op);
        }
        st.close();
    }
    let mut models = vec![model.clone()];
    for op in opsq {
        model.apply(op);
        models.push(model.clone());
    }
    let cur = Arc::new(Mutex::new((0usize, None)));
    let c2 = cur.clone();
    let (error, snaps) = with_snapshots(dir, cur, || {
        let mut st = match Store::<K>::open(dir, cfg.config()) {
            Ok(s) => s,
            Err(e) => return Some(format!("open failed: {e}")),
        };
        for (i, op) in opsq.iter().enumerate() {
            *c2.lock().unwrap() = (i, Some(i));
            if let Err(e) = st.apply(op) {
                return Some(format!("op {i} `{}` failed: {e}", op.show::<K>()));
            }
            *c2.lock().unwrap() = (i + 1, None);
        }
        st.close();
        None
    });
    History { snaps, models, error }
}

pub fn key_map<K: HKey>(m: &Model<K>) -> BTreeMap<Vec<u8>, ([u8; 32], u64)> {
    m.map.iter().map(|(k, v)| (k.to_key_bytes().as_ref().to_vec(), (b3(v), v.len() as u64))).collect()
}

/// Independent orphan computation: (orphans, invalid, missing, corrupted, staging) as sorted string sets.
pub fn expected_orphans<K: HKey>(im: &Image, m: &Model<K>, verify: bool) -> [BTreeSet<String>; 5] {
    let walk = ondisk::walk_cas(im);
    let blobs = m.blobs();
    let mut orphans = BTreeSet::new();
    let mut missing = BTreeSet::new();
    let mut corrupted = BTreeSet::new();
    for h in walk.blobs.keys() {
        if !blobs.contains_key(h) {
            orphans.insert(hex(h));
        }
    }
    for (h, (_, size)) in &blobs {
        match walk.blobs.get(h) {
            None => {
                missing.insert(hex(h));
            }
            Some(data) => {
                if verify && (data.len() as u64 != *size || b3(data) != *h) {
                    corrupted.insert(hex(h));
                }
            }
        }
    }
    let invalid: BTreeSet<String> = walk.strays.iter().map(|s| format!("cas/{s}")).collect();
    let staging: BTreeSet<String> = im.files_under("staging").keys().filter(|k| !k.contains('/')).map(|s| format!("staging/{s}")).collect();
    [orphans, invalid, missing, corrupted, staging]
}

pub fn reported_orphans<K: HKey>(st: &cassadilia::OrphanStats<K>, root: &Path) -> [BTreeSet<String>; 5] {
    let rel = |p: &std::path::PathBuf| p.strip_prefix(root).map(|x| x.to_string_lossy().into_owned()).unwrap_or_else(|_| p.to_string_lossy().into_owned());
    [
        st.orphaned_blobs.iter().map(|h| hex(h.as_bytes())).collect(),
        st.invalid_files.iter().map(rel).collect(),
        st.missing_blobs.iter().map(|h| hex(h.as_bytes())).collect(),
        st.corrupted_blobs.iter().map(|h| hex(h.as_bytes())).collect(),
        st.staging_files.iter().map(rel).collect(),
    ]
}

pub const ORPHAN_NAMES: [&str; 5] = ["orphaned_blobs", "invalid_files", "missing_blobs", "corrupted_blobs", "staging_files"];

/// thorough tier: every image is recovered a second time with verify_blob_integrity on (C08 "with and without")
pub static VERIFY_TOO: std::sync::atomic::AtomicBool = std::sync::atomic::AtomicBool::new(false);

pub struct Ctx<'a> {
    pub cfg: &'a Cfg,
    pub universe: &'a [u8],
    pub max_nest: usize,
    pub verify_too: bool,
}

fn suffix_ops() -> Vec<Op> {
    use crate::keys::*;
    vec![
        Op::Put { k: 1, c: C_Y, ch: 0 },
        Op::Put { k: 0, c: C_Y, ch: 0 },
        Op::Remove { k: 1 },
        Op::Checkpoint,
        Op::Reopen,
        Op::Put { k: 0, c: C_X, ch: 0 },
        Op::Reopen,
    ]
}

/// All oracles on one crash image. `m0` = acknowledged state, `m1` = with the in-flight op applied (if any).
/// Findings are (props, oracle, detail, nested-cut path).
pub fn check_image<K: HKey>(
    im: &Image,
    m0: &Model<K>,
    m1: Option<&Model<K>>,
    ctx: &Ctx<'_>,
    nest: usize,
    res: &mut WorkerResult,
    seen: &mut BTreeMap<u64, [u8; 32]>,
    out: &mut Vec<(Vec<&'static str>, String, String)>,
) {
    res.count("images", 1);
    let n = ctx.cfg.n;
    // -- structural oracles on the image itself
    if let Err(e) = ondisk::cas_integrity(im) {
        out.push((vec!["C06"], "image-cas-content".into(), e));
    }
    let walk = ondisk::walk_cas(im);
    if !walk.strays.is_empty() {
        out.push((vec!["C06"], "image-cas-stray".into(), format!("non-blob files under cas/: {:?}", walk.strays)));
    }
    let mut image_highest = 0;
    match ondisk::decode_disk(im, n) {
        Err(e) => out.push((vec!["C20"], "image-malformed".into(), e)),
        Ok(disk) => {
            image_highest = disk.highest_version();
            for r in disk.records() {
                let h = b3(&r.payload);
                if let Some(prev) = seen.insert(r.version, h) {
                    if prev != h {
                        out.push((vec!["C20"], "version-reused".into(), format!("version {} maps to two different records within one history", r.version)));
                    }
                }
            }
            match disk.replay() {
                Err(e) => out.push((vec!["C20"], "image-log-gap".into(), e)),
                Ok(got) => {
                    if got != key_map(m0) && m1.map_or(true, |m| got != key_map(m)) {
                        out.push((vec!["C20"], "image-vs-acked".into(), format!(
                            "snapshot+log decode to {} keys {:?}; acknowledged {:?}; with in-flight {:?}",
                            got.len(),
                            got.iter().map(|(k, (h, _))| (util::show(k), hex(&h[..3]))).collect::<Vec<_>>(),
                            key_map(m0).iter().map(|(k, (h, _))| (util::show(k), hex(&h[..3]))).collect::<Vec<_>>(),
                            m1.map(|m| key_map(m).iter().map(|(k, (h, _))| (util::show(k), hex(&h[..3]))).collect::<Vec<_>>())
                        )));
                    }
                }
            }
            let lo = m0.next_ver - 1;
            let hi = m1.map_or(lo, |m| m.next_ver - 1);
            if disk.highest_version() < lo || disk.highest_version() > hi {
                out.push((vec!["C20"], "image-version-range".into(), format!("highest version on disk {} outside [{lo},{hi}]", disk.highest_version())));
            }
        }
    }
    // -- recovery
    let dir2 = util::fresh_dir("rec");
    im.materialize(&dir2);
    let cfgr = ctx.cfg.config();
    let cur = Arc::new(Mutex::new((0usize, None)));
    let (opened, rsnaps) = if nest < ctx.max_nest {
        with_snapshots(&dir2, cur, || real::open_recover::<K>(&dir2, &cfgr))
    } else {
        (real::open_recover::<K>(&dir2, &cfgr), vec![])
    };
    match opened {
        Err(e) => {
            let class = e.split(&[':', '(', '{'][..]).next().unwrap_or("").trim().to_string();
            out.push((vec!["C03"], format!("recovery-open-failed/{}", class.replace(' ', "-")), format!("open after crash failed: {e}")));
        }
        Ok((cas, stats)) => {
            // C20 across the recovery: what the open left on disk (after-replay snapshot + remaining log), decoded independently,
            // still equals the acknowledged history (with or without the in-flight operation)
            match ondisk::decode_disk(&crate::seq::load_top(&dir2), n).and_then(|d| d.replay()) {
                Err(e) => out.push((vec!["C20"], "after-recovery-malformed".into(), e)),
                Ok(got) => {
                    if got != key_map(m0) && m1.map_or(true, |m| got != key_map(m)) {
                        out.push((vec!["C20"], "after-recovery-disk-vs-acked".into(), format!(
                            "after the recovering open, snapshot+log decode to {:?}; acknowledged {:?}; with in-flight {:?}",
                            got.iter().map(|(k, (h, _))| (util::show(k), hex(&h[..3]))).collect::<Vec<_>>(),
                            key_map(m0).iter().map(|(k, (h, _))| (util::show(k), hex(&h[..3]))).collect::<Vec<_>>(),
                            m1.map(|m| key_map(m).iter().map(|(k, (h, _))| (util::show(k), hex(&h[..3]))).collect::<Vec<_>>())
                        )));
                    }
                }
            }
            let mut f0 = Vec::new();
            real::check_reads(&cas, m0, ctx.universe, &mut f0);
            let mut chosen: Option<&Model<K>> = if f0.is_empty() { Some(m0) } else { None };
            if chosen.is_none() {
                if let Some(m) = m1 {
                    let mut f1 = Vec::new();
                    real::check_reads(&cas, m, ctx.universe, &mut f1);
                    if f1.is_empty() {
                        chosen = Some(m);
                    }
                }
            }
            res.outcomes.insert(match (chosen.is_some(), chosen.map(|c| std::ptr::eq(c, m0))) {
                (true, Some(true)) => if m1.is_some() { "recovered:without-inflight".into() } else { "recovered:acked".into() },
                (true, _) => "recovered:with-inflight".to_string(),
                _ => "recovered:NEITHER".to_string(),
            });
            match chosen {
                None => {
                    out.push((vec!["C03"], format!("state-neither/{}", f0[0].oracle), format!("recovered state is neither the acknowledged one nor acknowledged+in-flight: {}", f0[0].detail)));
                }
                Some(m) => {
                    let mut fc = Vec::new();
                    if let Err(p) = util::catch(|| real::check_counts(&cas, m, &dir2, &mut fc)) {
                        out.push((vec!["C12"], "counts-panic".into(), p));
                    }
                    for fd in fc {
                        let props = if fd.class == Class::IndexStat { vec!["C02"] } else { vec!["C12"] };
                        out.push((props, format!("recovered-{}", fd.oracle), fd.detail));
                    }
                    if let Some(stats) = &stats {
                        let want = expected_orphans(im, m, false);
                        let got = reported_orphans(stats, &dir2);
                        for i in 0..5 {
                            if want[i] != got[i] {
                                out.push((vec!["C08"], format!("scan-{}", ORPHAN_NAMES[i]), format!("{} reported {:?}, independent comparison {:?}", ORPHAN_NAMES[i], got[i], want[i])));
                            }
                        }
                        if !want[2].is_empty() {
                            out.push((vec!["C03"], "acked-blob-missing".into(), format!("referenced blobs missing after crash: {:?}", want[2])));
                        }
                        match stats.delete_orphans() {
                            Err(e) => out.push((vec!["C08"], "delete-orphans-failed".into(), util::err_chain(&e))),
                            Ok(rr) => {
                                if !rr.errors.is_empty() {
                                    out.push((vec!["C08"], "delete-orphans-errors".into(), format!("{:?}", rr.errors)));
                                }
                                let mut fd = Vec::new();
                                real::check_dir(&dir2, m, &mut fd);
                                for x in fd {
                                    out.push((vec!["C08"], format!("cleanup-{}", x.oracle), format!("after delete_orphans: {}", x.detail)));
                                }
                            }
                        }
                    }
                    drop(stats);
                    // usability suffix
                    let mut st = Store { dir: dir2.clone(), cfg: cfgr.clone(), cas: Some(cas) };
                    let mut mm = m.clone();
                    let mut bad = false;
                    for (i, op) in suffix_ops().iter().enumerate() {
                        let got = st.apply(op);
                        let want = mm.apply(op);
                        match got {
                            Err(e) => {
                                out.push((vec!["C03"], "unusable-after-recovery".into(), format!("suffix op {i} `{}` failed: {e}", op.show::<K>())));
                                bad = true;
                            }
                            Ok(r) if r != want => {
                                out.push((vec!["C03"], "unusable-after-recovery".into(), format!("suffix op {i} `{}` returned {r:?}, model {want:?}", op.show::<K>())));
                                bad = true;
                            }
                            _ => {}
                        }
                        if bad {
                            break;
                        }
                        let fs = real::check_all(st.cas(), &mm, &dir2, ctx.universe);
                        if let Some(fd) = fs.first() {
                            out.push((vec!["C03"], format!("unusable-after-recovery/{}", fd.oracle), format!("after suffix op {i} `{}`: {}", op.show::<K>(), fd.detail)));
                            break;
                        }
                    }
                    st.close();
                    // versions are never reused across the restart
                    if !bad {
                        match ondisk::decode_disk(&crate::seq::load_top(&dir2), n) {
                            Err(e) => out.push((vec!["C20"], "post-recovery-malformed".into(), e)),
                            Ok(d2) => {
                                for r in d2.records() {
                                    if r.version <= image_highest {
                                        if let Some(prev) = seen.get(&r.version) {
                                            if *prev != b3(&r.payload) {
                                                out.push((vec!["C20"], "version-reused-after-restart".into(), format!("version {} was reused after recovery", r.version)));
                                            }
                                        }
                                    }
                                }
                                if d2.highest_version() != mm.next_ver - 1 {
                                    // mm.next_ver counts from the chosen model; a crashed in-flight op that left a record consumes a version
                                    let lo = mm.next_ver - 1;
                                    if d2.highest_version() < lo || d2.highest_version() > lo + 1 {
                                        out.push((vec!["C20"], "post-recovery-version".into(), format!("highest version {} after recovery+suffix, expected {lo} or {}", d2.highest_version(), lo + 1)));
                                    }
                                }
                            }
                        }
                    }
                }
            }
        }
    }
    util::rm_rf(&dir2);
    if nest == 0 && (ctx.verify_too || VERIFY_TOO.load(std::sync::atomic::Ordering::Relaxed)) {
        let dir3 = util::fresh_dir("recv");
        im.materialize(&dir3);
        let cfgv = cassadilia::Config { verify_blob_integrity: true, ..ctx.cfg.config() };
        if let Ok((cas, Some(stats))) = real::open_recover::<K>(&dir3, &cfgv) {
            let mut f0 = Vec::new();
            real::check_reads(&cas, m0, ctx.universe, &mut f0);
            let m = if f0.is_empty() { Some(m0) } else { m1 };
            if let Some(m) = m {
                let want = expected_orphans(im, m, true);
                let got = reported_orphans(&stats, &dir3);
                for i in 0..5 {
                    if want[i] != got[i] {
                        out.push((vec!["C08"], format!("scan-verify-{}", ORPHAN_NAMES[i]), format!("with verify_blob_integrity: {} reported {:?}, independent comparison {:?}", ORPHAN_NAMES[i], got[i], want[i])));
                    }
                }
            }
            drop(stats);
            drop(cas);
        }
        util::rm_rf(&dir3);
        res.count("verify_recoveries", 1);
    }
    // -- nested: crash inside the recovery itself
    if !rsnaps.is_empty() {
        let mut uniq: Vec<(usize, &Snap)> = Vec::new();
        for (i, s) in rsnaps.iter().enumerate() {
            if s.site == "end" {
                continue;
            }
            if uniq.iter().any(|(_, u)| u.image == s.image) {
                continue;
            }
            uniq.push((i, s));
        }
        for (i, s) in uniq {
            let mut sub = Vec::new();
            let mut seen2 = seen.clone();
            check_image(&s.image, m0, m1, ctx, nest + 1, res, &mut seen2, &mut sub);
            res.count("nested_images", 1);
            for (p, o, d) in sub {
                out.push((p, format!("{o}@nested"), format!("[crash again inside recovery before call #{i} {}] {d}", s.call)));
            }
        }
    }
}

pub fn case_json<K: HKey>(cfg: &Cfg, prefix: &[Op], opsq: &[Op], cut: usize, max_nest: usize) -> Value {
    json!({"engine": "crash", "key": K::NAME, "cfg": cfg, "prefix": prefix, "ops": opsq, "cut": cut, "max_nest": max_nest,
           "text": format!("prefix [{}] history [{}]", ops::show_seq::<K>(prefix), ops::show_seq::<K>(opsq))})
}

/// Explore every cut of one history (or only `only_cut`).
pub fn run_case<K: HKey>(cfg: &Cfg, prefix: &[Op], opsq: &[Op], max_nest: usize, only_cut: Option<usize>, res: &mut WorkerResult, verbose: bool) -> Vec<Violation> {
    let dir = util::fresh_dir("hist");
    IN_PLACE.lock().unwrap().clear();
    let hist = run_history::<K>(&dir, cfg, prefix, opsq);
    util::rm_rf(&dir);
    let mut vs = Vec::new();
    let mut all: Vec<Op> = prefix.to_vec();
    all.extend_from_slice(opsq);
    let mut universe = crate::seq::universe_of(&all);
    for k in [0u8, 1] {
        if !universe.contains(&k) {
            universe.push(k);
        }
    }
    let ctx = Ctx { cfg, universe: &universe, max_nest, verify_too: false };
    if let Some(e) = &hist.error {
        if EXDEV_AT.load(std::sync::atomic::Ordering::Relaxed) > 0 {
            // the injected EXDEV made the put fail, as it should; the in-place scan above is the oracle of this plan
            return vs_exdev(cfg, prefix, opsq, max_nest);
        }
        let mut v = Violation::new(&["C03"], "history-op-failed", format!("[{} {}] {}: {e}", K::NAME, cfg.show(), ops::show_seq::<K>(opsq)));
        v.replay = case_json::<K>(cfg, prefix, opsq, 0, max_nest);
        vs.push(v);
        return vs;
    }
    res.count("histories", 1);
    res.count("cuts", hist.snaps.len() as u64);
    let in_place = std::mem::take(&mut *IN_PLACE.lock().unwrap());
    if !in_place.is_empty() {
        let mut v = Violation::new(&["C06"], "cas-written-in-place", format!("[{} {}] prefix `{}` history `{}`: a file under cas/ was opened for writing / written / truncated in place: {:?}", K::NAME, cfg.show(), ops::show_seq::<K>(prefix), ops::show_seq::<K>(opsq), &in_place[..in_place.len().min(4)]));
        v.replay = case_json::<K>(cfg, prefix, opsq, 0, max_nest);
        vs.push(v);
    }
    let mut seen: BTreeMap<u64, [u8; 32]> = BTreeMap::new();
    let mut done: Vec<(usize, Option<usize>, &Image)> = Vec::new();
    for (ci, s) in hist.snaps.iter().enumerate() {
        if let Some(c) = only_cut {
            if c != ci {
                continue;
            }
        }
        if done.iter().any(|(a, i, im)| *a == s.acked && *i == s.inflight && **im == s.image) {
            continue;
        }
        done.push((s.acked, s.inflight, &s.image));
        let m0 = &hist.models[s.acked];
        let m1 = match s.inflight {
            Some(i) if hist.models[i + 1] != *m0 => Some(&hist.models[i + 1]),
            _ => None,
        };
        res.state(&format!("{:?}", (b3(format!("{:?}", s.image).as_bytes()), s.acked, s.inflight)));
        let mut out = Vec::new();
        check_image::<K>(&s.image, m0, m1, &ctx, 0, res, &mut seen, &mut out);
        if verbose {
            println!("  cut {ci}: before {} acked={} inflight={:?} files=[{}] -> {} finding(s)", s.call, s.acked, s.inflight, s.image.summary(), out.len());
        }
        for (props, oracle, detail) in out {
            let inflight = s.inflight.map(|i| opsq[i].show::<K>()).unwrap_or_else(|| "none".into());
            let mut v = Violation::new(
                &props,
                &oracle,
                format!("[{} {}] prefix `{}` history `{}` killed before mutating call #{ci} {} (acked {} ops, in flight: {inflight}): {detail}",
                    K::NAME, cfg.show(), ops::show_seq::<K>(prefix), ops::show_seq::<K>(opsq), s.call, s.acked),
            );
            v.sig = format!("{oracle}|cut-before={}|inflight={}", s.site, s.inflight.map(|i| op_class(&opsq[i])).unwrap_or("none"));
            v.replay = case_json::<K>(cfg, prefix, opsq, ci, max_nest);
            vs.push(v);
        }
    }
    let ex = EXDEV_AT.load(std::sync::atomic::Ordering::Relaxed);
    if ex > 0 {
        for v in vs.iter_mut() {
            v.replay["exdev_at"] = json!(ex);
            v.sig = format!("{}|exdev", v.sig);
        }
    }
    vs
}

fn vs_exdev(cfg: &Cfg, prefix: &[Op], opsq: &[Op], max_nest: usize) -> Vec<Violation> {
    let in_place = std::mem::take(&mut *IN_PLACE.lock().unwrap());
    if in_place.is_empty() {
        return vec![];
    }
    let mut v = Violation::new(&["C06"], "cas-written-in-place", format!("[{}] prefix `{}` history `{}` with a rename into cas/ failing with EXDEV: a file under cas/ was written in place: {:?}", cfg.show(), ops::show_seq::<String>(prefix), ops::show_seq::<String>(opsq), &in_place[..in_place.len().min(4)]));
    v.sig = "cas-written-in-place|exdev".into();
    let mut c = case_json::<String>(cfg, prefix, opsq, 0, max_nest);
    c["exdev_at"] = json!(EXDEV_AT.load(std::sync::atomic::Ordering::Relaxed));
    v.replay = c;
    vec![v]
}

pub fn op_class(op: &Op) -> &'static str {
    match op {
        Op::Put { k, .. } if *k == crate::keys::BIG => "put-bigkey",
        Op::Put { .. } => "put",
        Op::Abort { .. } => "abort",
        Op::Remove { .. } => "remove",
        Op::RemoveRange { .. } => "remove_range",
        Op::Checkpoint => "checkpoint",
        Op::Reopen => "reopen",
    }
}

pub struct SubRun {
    pub cfg: Cfg,
    pub prefix: Vec<Op>,
    pub alphabet: Vec<Op>,
    pub depth: usize,
    pub nest: usize,
    pub label: &'static str,
}

/// `n` earlier operations (so that later ones land in segments with multi-digit ids): alternating overwrites of two keys.
pub fn long_prefix(n: usize) -> Vec<Op> {
    use crate::keys::*;
    (0..n).map(|i| Op::Put { k: (i % 2) as u8, c: if (i / 2) % 2 == 0 { C_X } else { C_Y }, ch: 0 }).collect()
}

pub fn big_alphabet() -> Vec<Op> {
    use crate::keys::*;
    vec![
        Op::Put { k: BIG, c: C_X, ch: 0 },
        // a log record above 64 KiB
        Op::Put { k: HUGE, c: C_X, ch: 0 },
        Op::Put { k: 0, c: C_L, ch: 0 },
        Op::Put { k: 1, c: C_X, ch: 0 },
        Op::Remove { k: BIG },
        Op::RemoveRange { lo: ops::B::Unb, hi: ops::B::Unb },
        Op::Checkpoint,
        Op::Reopen,
    ]
}

pub fn plan(tier: &str) -> Vec<SubRun> {
    use crate::keys::*;
    let c = |n, a| Cfg { n, async_mode: a };
    let shared = vec![Op::Put { k: 0, c: C_X, ch: 0 }, Op::Put { k: 1, c: C_X, ch: 0 }];
    let three = vec![Op::Put { k: 0, c: C_X, ch: 0 }, Op::Put { k: 1, c: C_Y, ch: 0 }, Op::Put { k: 2, c: C_X, ch: 0 }];
    let mut v = Vec::new();
    if tier == "quick" {
        for n in [1, 2, 10_000] {
            v.push(SubRun { cfg: c(n, false), prefix: vec![], alphabet: ops::alphabet("crash"), depth: 3, nest: 0, label: "fresh" });
        }
        v.push(SubRun { cfg: c(2, false), prefix: shared.clone(), alphabet: ops::alphabet("crash"), depth: 2, nest: 1, label: "shared-prefix nested" });
        v.push(SubRun { cfg: c(3, false), prefix: three.clone(), alphabet: ops::alphabet("crash"), depth: 2, nest: 0, label: "three-keys" });
        v.push(SubRun { cfg: c(3, false), prefix: shared.clone(), alphabet: ops::alphabet("crash"), depth: 2, nest: 0, label: "restart in mid-segment" });
        v.push(SubRun { cfg: c(2, false), prefix: long_prefix(19), alphabet: ops::alphabet("crash"), depth: 2, nest: 0, label: "segment ids 9 -> 10 (N=2, 19 earlier ops)" });
        v.push(SubRun { cfg: c(1, false), prefix: long_prefix(9), alphabet: ops::alphabet("crash"), depth: 2, nest: 1, label: "segment ids 9 -> 10 (N=1, 9 earlier ops) nested" });
        v.push(SubRun { cfg: c(2, true), prefix: vec![], alphabet: ops::alphabet("crash"), depth: 2, nest: 1, label: "async nested" });
        v.push(SubRun { cfg: c(2, false), prefix: vec![], alphabet: big_alphabet(), depth: 2, nest: 1, label: "big records/blobs nested" });
        v.push(SubRun { cfg: c(10_000, false), prefix: vec![], alphabet: big_alphabet(), depth: 2, nest: 0, label: "big records/blobs" });
    } else {
        for n in [1, 2, 3, 10_000] {
            v.push(SubRun { cfg: c(n, false), prefix: vec![], alphabet: ops::alphabet("crash"), depth: 4, nest: 0, label: "fresh d4" });
            v.push(SubRun { cfg: c(n, false), prefix: vec![], alphabet: ops::alphabet("crash"), depth: 3, nest: 1, label: "fresh d3 nested" });
            v.push(SubRun { cfg: c(n, true), prefix: vec![], alphabet: ops::alphabet("crash"), depth: 3, nest: 1, label: "async d3 nested" });
            v.push(SubRun { cfg: c(n, false), prefix: shared.clone(), alphabet: ops::alphabet("crash"), depth: 3, nest: 1, label: "shared-prefix nested" });
            v.push(SubRun { cfg: c(n, false), prefix: three.clone(), alphabet: ops::alphabet("crash"), depth: 3, nest: 0, label: "three-keys" });
            v.push(SubRun { cfg: c(n + 1, false), prefix: shared.clone(), alphabet: ops::alphabet("crash"), depth: 3, nest: 0, label: "restart in mid-segment" });
            if n <= 3 {
                v.push(SubRun { cfg: c(n, false), prefix: long_prefix(10 * n as usize - 1), alphabet: ops::alphabet("crash"), depth: 3, nest: 1, label: "segment ids 9 -> 10 nested" });
                v.push(SubRun { cfg: c(n, false), prefix: long_prefix(100 * n as usize - 1), alphabet: ops::alphabet("crash"), depth: 2, nest: 0, label: "segment ids 99 -> 100" });
            }
            v.push(SubRun { cfg: c(n, false), prefix: vec![], alphabet: big_alphabet(), depth: 3, nest: 1, label: "big records/blobs nested" });
        }
        v.push(SubRun { cfg: c(2, false), prefix: shared, alphabet: ops::alphabet("crash"), depth: 2, nest: 2, label: "nesting depth 3" });
    }
    v
}

/// Staging names are random: canonicalise them for comparisons across processes.
fn canon_image(im: &Image) -> Image {
    let mut out = Image { dirs: im.dirs.clone(), files: Default::default() };
    let mut staged: Vec<&Vec<u8>> = Vec::new();
    for (p, d) in &im.files {
        if p.starts_with("staging/") {
            staged.push(d);
        } else {
            out.files.insert(p.clone(), d.clone());
        }
    }
    staged.sort();
    for (i, d) in staged.into_iter().enumerate() {
        out.files.insert(format!("staging/#{i}"), d.clone());
    }
    out
}

/// Child entry `cvh kill-child <dir> <n> <async> <ops-json> <k>`: run the history and really die (`_exit`) before mutating call k.
pub fn kill_child(args: &[String]) {
    let dir = std::path::PathBuf::from(&args[0]);
    let cfg = Cfg { n: args[1].parse().unwrap(), async_mode: args[2] == "true" };
    let opsq: Vec<Op> = serde_json::from_str(&args[3]).unwrap();
    let k: u64 = args[4].parse().unwrap();
    let pre = args.get(5).map_or(false, |x| x == "pre");
    let cnt = Arc::new(std::sync::atomic::AtomicU64::new(0));
    let c2 = cnt.clone();
    shim::arm(
        &dir,
        Arc::new(move |ev, ph| {
            if let Phase::Pre = ph {
                if ev.mutating && c2.fetch_add(1, std::sync::atomic::Ordering::SeqCst) + 1 == k {
                    unsafe { libc::_exit(99) };
                }
            }
            0
        }),
    );
    shim::participate(true);
    let conf = cassadilia::Config { pre_create_cas_dirs: pre, ..cfg.config() };
    if let Ok(mut st) = Store::<String>::open(&dir, conf) {
        for op in &opsq {
            let _ = st.apply(op);
        }
        st.close();
    }
    shim::participate(false);
    // k = 0: report how many mutating calls the run makes
    println!("CALLS {}", cnt.load(std::sync::atomic::Ordering::SeqCst));
    unsafe { libc::_exit(0) };
}

/// Bind the snapshot mechanism to reality: for every k a child process running the same history is really
/// killed before its k-th mutating call; its directory must equal snapshot k-1 byte for byte.
pub fn validate_by_killing(cfg: &Cfg, opsq: &[Op], res: &mut WorkerResult) {
    let dir = util::fresh_dir("kv");
    let hist = run_history::<String>(&dir, cfg, &[], opsq);
    util::rm_rf(&dir);
    let exe = std::env::current_exe().unwrap();
    let ops_json = serde_json::to_string(opsq).unwrap();
    for k in 1..hist.snaps.len() {
        let d = util::fresh_dir("kc");
        let st = std::process::Command::new(&exe)
            .args(["kill-child", d.to_str().unwrap(), &cfg.n.to_string(), &cfg.async_mode.to_string(), &ops_json, &k.to_string()])
            .status()
            .expect("spawn kill child");
        if st.code() != Some(99) {
            eprintln!("MACHINERY: kill child for k={k} exited with {st:?} instead of dying at the call");
            std::process::exit(2);
        }
        let got = canon_image(&Image::load(&d));
        let want = canon_image(&hist.snaps[k - 1].image);
        if got.files != want.files {
            eprintln!("MACHINERY: snapshot {k} of `{}` differs from the directory of a process really killed there: {}", ops::show_seq::<String>(opsq), want.diff(&got));
            std::process::exit(2);
        }
        util::rm_rf(&d);
        res.count("validated", 1);
    }
}

/// A range removal over MANY keys is one operation (C03): `nkeys` keys sharing one blob, then `remove_range` over all or most
/// of them, cut at every mutating call; the recovered store must hold either all keys or none of the range.
pub fn many_keys_case(nkeys: usize, klen: usize, partial: bool, cfg: &Cfg, only_cut: Option<usize>, res: &mut WorkerResult) -> Vec<Violation> {
    use cassadilia::Cas;
    let mut vs = Vec::new();
    let dir = util::fresh_dir("many");
    // (format widths are limited to 65535; the keys go up to 70,000 bytes)
    let key = |i: usize| {
        let digits = i.to_string();
        let width = klen.max(7) - 1;
        format!("k{}{digits}", "0".repeat(width.saturating_sub(digits.len())))
    };
    {
        let cas = real::open_cas::<String>(&dir, &cfg.config()).expect("open");
        for i in 0..nkeys {
            real::put_chunks(&cas, key(i), &[b"xx"], true).expect("put");
        }
    }
    let (lo, hi) = if partial { (nkeys / 10, nkeys - nkeys / 10) } else { (0, nkeys) };
    let cur = Arc::new(Mutex::new((0usize, None)));
    let c2 = cur.clone();
    let (r, snaps) = with_snapshots(&dir, cur, || -> Result<usize, String> {
        let cas: Cas<String> = real::open_cas::<String>(&dir, &cfg.config())?;
        *c2.lock().unwrap() = (0, Some(0));
        let n = cas.remove_range(key(lo)..key(hi)).map_err(|e| util::err_chain(&e))?;
        *c2.lock().unwrap() = (1, None);
        drop(cas);
        Ok(n)
    });
    IN_PLACE.lock().unwrap().clear();
    util::rm_rf(&dir);
    let case = |cut: usize| json!({"engine": "crash", "kind": "many-keys", "nkeys": nkeys, "klen": klen, "partial": partial, "cfg": cfg, "cut": cut});
    match r {
        Ok(n) if n == hi - lo => {}
        other => {
            let mut v = Violation::new(&["C03"], "many-keys-remove-range", format!("remove_range over {} of {nkeys} keys returned {other:?}", hi - lo));
            v.replay = case(0);
            return vec![v];
        }
    }
    res.count("histories", 1);
    let mut seen_imgs: Vec<Vec<(String, usize)>> = Vec::new();
    for (ci, s) in snaps.iter().enumerate() {
        if only_cut.map_or(false, |c| c != ci) {
            continue;
        }
        let sig: Vec<(String, usize)> = s.image.files.iter().map(|(k, v)| (k.clone(), v.len())).collect();
        if seen_imgs.contains(&sig) {
            continue;
        }
        seen_imgs.push(sig);
        res.count("images", 1);
        let d2 = util::fresh_dir("manyr");
        s.image.materialize(&d2);
        let got = real::open_recover::<String>(&d2, &cfg.config());
        let finding = match got {
            Err(e) => Some(("recovery-open-failed/many-keys".to_string(), format!("open after crash failed: {e}"))),
            Ok((cas, _)) => {
                let len = cas.read_index_state().len();
                let full = nkeys;
                let removed = nkeys - (hi - lo);
                let ok = if s.acked == 1 { len == removed } else if s.inflight.is_some() { len == full || len == removed } else { len == full };
                if ok { None } else { Some(("range-removal-not-atomic".to_string(), format!("{len} keys after recovery; a range removal of {} of {nkeys} keys must leave {full} or {removed}", hi - lo))) }
            }
        };
        util::rm_rf(&d2);
        if let Some((o, d)) = finding {
            let mut v = Violation::new(&["C03"], &o, format!("[{}] {nkeys} keys of {klen} bytes sharing one blob, remove_range over {} of them, killed before mutating call #{ci} {}: {d}", cfg.show(), hi - lo, s.call));
            v.sig = format!("{o}|many-keys");
            v.replay = case(ci);
            vs.push(v);
        }
    }
    vs
}

pub fn run(tier: &str, slice: (u64, u64), seed: u64) -> WorkerResult {
    shim::require();
    let mut res = WorkerResult::new("crash");
    // one "many keys" range removal per worker (record sizes above 8 KiB / 64 KiB, key counts above 1024 / 4096 ...)
    {
        // (number of keys, key length): log records of 8 KB .. 1.35 MB (thorough: .. 4.5 MB)
        let sizes: Vec<(usize, usize)> = if tier == "quick" {
            vec![(700, 7), (1100, 7), (2100, 7), (6500, 7), (150, 9000)]
        } else {
            vec![(700, 7), (1100, 7), (2100, 7), (4200, 7), (6500, 7), (9000, 7), (17000, 7), (33000, 7), (66000, 7), (150, 9000), (500, 9000), (40, 70_000)]
        };
        if let Some(&(nk, kl)) = sizes.get(slice.0 as usize) {
            for partial in [false, true] {
                for v in many_keys_case(nk, kl, partial, &Cfg { n: if nk % 2 == 0 { 10_000 } else { 64 }, async_mode: false }, None, &mut res) {
                    res.violate(v);
                }
            }
        }
        if slice.0 == 0 {
            res.completed.push(format!("range removal over many keys sharing one blob ({sizes:?} keys; whole range and inner 80%): every cut, recovered key count must be all or nothing"));
        }
    }
    // a rename into cas/ answered EXDEV (shard directory on another device): nothing may be written in place under cas/
    if slice.0 == slice.1 - 1 {
        use crate::keys::*;
        let put = |k, c| Op::Put { k, c, ch: 0 };
        for hist in [vec![put(0, C_X)], vec![put(0, C_X), put(1, C_X)], vec![put(0, C_L), put(0, C_Y)], vec![put(0, C_X), put(0, C_H)]] {
            for k in 1..=hist.len() as u64 {
                EXDEV_AT.store(k, std::sync::atomic::Ordering::Relaxed);
                for v in run_case::<String>(&Cfg { n: 10_000, async_mode: false }, &[], &hist, 0, None, &mut res, false) {
                    // only the in-place oracle is meaningful here (the injected error is not a crash)
                    if v.oracle == "cas-written-in-place" {
                        res.violate(v);
                    }
                }
                EXDEV_AT.store(0, std::sync::atomic::Ordering::Relaxed);
            }
        }
        res.completed.push("rename into cas/ failing with EXDEV at each rename of 4 short histories: no in-place write under cas/ (trace scan)".into());
    }
    let mut j = 0u64;
    VERIFY_TOO.store(tier != "quick", std::sync::atomic::Ordering::Relaxed);
    // every worker validates the snapshot mechanism on one history of its own before trusting it
    {
        let alpha = ops::alphabet("crash");
        let total = ops::seq_count(&alpha, 3);
        let idx = (slice.0 * 37 + seed * 11 + 5) % total;
        let cfg = Cfg { n: [1, 2, 10_000][(slice.0 % 3) as usize], async_mode: false };
        validate_by_killing(&cfg, &ops::seq_of(&alpha, 3, idx), &mut res);
        if slice.0 == 0 {
            res.completed.push("snapshot mechanism validated: per worker one depth-3 history, a child process really killed (_exit) before every mutating call, directory == snapshot".into());
        }
    }
    for sr in plan(tier) {
        let total = ops::seq_count(&sr.alphabet, sr.depth);
        for i in 0..total {
            j += 1;
            if j % slice.1 != slice.0 {
                continue;
            }
            let idx = (i + seed) % total;
            let opsq = ops::seq_of(&sr.alphabet, sr.depth, idx);
            let vs = run_case::<String>(&sr.cfg, &sr.prefix, &opsq, sr.nest, None, &mut res, false);
            if res.samples.len() < 2 && idx % 97 == 55 {
                res.sample(case_json::<String>(&sr.cfg, &sr.prefix, &opsq, 0, sr.nest));
            }
            for v in vs {
                res.violate(v);
            }
        }
        if slice.0 == 0 {
            res.completed.push(format!(
                "{} {}: all {} histories of depth {} over {} symbols, prefix [{}], every cut, nesting depth {}",
                sr.label, sr.cfg.show(), total, sr.depth, sr.alphabet.len(), ops::show_seq::<String>(&sr.prefix), sr.nest + 1
            ));
        }
    }
    res
}

pub fn replay(case: &Value) -> Vec<Violation> {
    shim::require();
    let cfg: Cfg = serde_json::from_value(case["cfg"].clone()).expect("cfg");
    if case["kind"].as_str() == Some("many-keys") {
        let mut res = WorkerResult::new("crash");
        return many_keys_case(case["nkeys"].as_u64().unwrap() as usize, case["klen"].as_u64().unwrap_or(7) as usize, case["partial"].as_bool().unwrap(), &cfg, case["cut"].as_u64().map(|c| c as usize), &mut res);
    }
    if let Some(k) = case["exdev_at"].as_u64() {
        EXDEV_AT.store(k, std::sync::atomic::Ordering::Relaxed);
    }
    let prefix: Vec<Op> = serde_json::from_value(case["prefix"].clone()).expect("prefix");
    let opsq: Vec<Op> = serde_json::from_value(case["ops"].clone()).expect("ops");
    let cut = case["cut"].as_u64().map(|c| c as usize);
    let nest = case["max_nest"].as_u64().unwrap_or(0) as usize;
    let mut res = WorkerResult::new("crash");
    run_case::<String>(&cfg, &prefix, &opsq, nest, cut, &mut res, true)
}
