//! The real store behind a small wrapper, and the observation oracles that compare it with the model.

use crate::keys::{self, HKey};
use crate::model::{Model, Ret};
use crate::ops::{B, Op, all_ranges};
use crate::util::{Image, b3, catch, err_chain, hex, show};
use cassadilia::{Cas, Config, OrphanStats};
use std::io::Read;
use std::path::{Path, PathBuf};

pub struct Store<K: HKey> {
    pub dir: PathBuf,
    pub cfg: Config,
    pub cas: Option<Cas<K>>,
}

pub fn open_cas<K: HKey>(dir: &Path, cfg: &Config) -> Result<Cas<K>, String> {
    match catch(|| Cas::<K>::open(dir, cfg.clone())) {
        Ok(Ok(c)) => Ok(c),
        Ok(Err(e)) => Err(err_chain(&e)),
        Err(p) => Err(format!("PANIC: {p}")),
    }
}

pub fn open_recover<K: HKey>(dir: &Path, cfg: &Config) -> Result<(Cas<K>, Option<OrphanStats<K>>), String> {
    match catch(|| Cas::<K>::open_with_recover(dir, cfg.clone())) {
        Ok(Ok(c)) => Ok(c),
        Ok(Err(e)) => Err(err_chain(&e)),
        Err(p) => Err(format!("PANIC: {p}")),
    }
}

pub fn put_chunks<K: HKey>(cas: &Cas<K>, key: K, chunks: &[&[u8]], finish: bool) -> Result<(), String> {
    let r = catch(|| -> Result<(), String> {
        let mut tx = cas.put(key).map_err(|e| err_chain(&e))?;
        for c in chunks {
            tx.write(c).map_err(|e| err_chain(&e))?;
        }
        if finish {
            tx.finish().map_err(|e| err_chain(&e))?;
        } else {
            drop(tx);
        }
        Ok(())
    });
    match r {
        Ok(r) => r,
        Err(p) => Err(format!("PANIC: {p}")),
    }
}

/// A transaction abandoned by unwinding: the caller panics while the transaction is alive (the panic is caught at the
/// boundary, as a server's per-request handler would).
pub fn abandon_by_panic<K: HKey>(cas: &Cas<K>, key: K, chunks: &[&[u8]]) -> Result<(), String> {
    let r = catch(|| -> Result<(), String> {
        let mut tx = cas.put(key).map_err(|e| err_chain(&e))?;
        for c in chunks {
            tx.write(c).map_err(|e| err_chain(&e))?;
        }
        std::panic::panic_any(AbandonMarker);
    });
    match r {
        Ok(r) => r,
        // our own marker: the transaction was dropped during unwinding, as intended
        Err(p) if p == "panic (non-string payload)" => Ok(()),
        Err(p) => Err(format!("PANIC: {p}")),
    }
}

struct AbandonMarker;

pub fn apply_op<K: HKey>(cas: &Cas<K>, op: &Op) -> Result<Ret, String> {
    match *op {
        Op::Put { k, c, ch } => {
            put_chunks(cas, K::make(k).unwrap(), &keys::chunks(keys::content(c), ch), true).map(|_| Ret::Unit)
        }
        // chunking 5 = written in one piece, then abandoned by unwinding instead of an ordinary drop
        Op::Abort { k, c, ch: 5 } => abandon_by_panic(cas, K::make(k).unwrap(), &keys::chunks(keys::content(c), 0)).map(|_| Ret::Unit),
        Op::Abort { k, c, ch } => {
            put_chunks(cas, K::make(k).unwrap(), &keys::chunks(keys::content(c), ch), false).map(|_| Ret::Unit)
        }
        Op::Remove { k } => match catch(|| cas.remove(&K::make(k).unwrap())) {
            Ok(Ok(b)) => Ok(Ret::Bool(b)),
            Ok(Err(e)) => Err(err_chain(&e)),
            Err(p) => Err(format!("PANIC: {p}")),
        },
        Op::RemoveRange { lo, hi } => match catch(|| cas.remove_range((lo.to_bound::<K>(), hi.to_bound::<K>()))) {
            Ok(Ok(n)) => Ok(Ret::Count(n)),
            Ok(Err(e)) => Err(err_chain(&e)),
            Err(p) => Err(format!("PANIC: {p}")),
        },
        Op::Checkpoint => match catch(|| cas.checkpoint()) {
            Ok(Ok(())) => Ok(Ret::Unit),
            Ok(Err(e)) => Err(err_chain(&e)),
            Err(p) => Err(format!("PANIC: {p}")),
        },
        Op::Reopen => panic!("Reopen is handled by Store::apply"),
    }
}

impl<K: HKey> Store<K> {
    pub fn open(dir: &Path, cfg: Config) -> Result<Store<K>, String> {
        let cas = open_cas::<K>(dir, &cfg)?;
        Ok(Store { dir: dir.to_path_buf(), cfg, cas: Some(cas) })
    }
    pub fn close(&mut self) {
        self.cas = None;
    }
    pub fn reopen(&mut self) -> Result<(), String> {
        self.cas = None;
        self.cas = Some(open_cas::<K>(&self.dir, &self.cfg)?);
        Ok(())
    }
    pub fn cas(&self) -> &Cas<K> {
        self.cas.as_ref().expect("store is open")
    }
    pub fn apply(&mut self, op: &Op) -> Result<Ret, String> {
        match op {
            Op::Reopen => self.reopen().map(|_| Ret::Unit),
            _ => apply_op(self.cas(), op),
        }
    }
}

#[derive(Clone, Copy, Debug, PartialEq, Eq)]
pub enum Class {
    /// what reads return (C01; C02 after a restart)
    Reads,
    /// refcounts / known blobs / stats / sizes (C12)
    Counts,
    /// snapshot-size statistic vs the `index` file (C02)
    IndexStat,
    /// cas/ and staging/ exactness (C07)
    Dir,
    /// a cas file whose bytes do not match its name (C06)
    Blob,
}

#[derive(Clone, Debug)]
pub struct Finding {
    pub class: Class,
    pub oracle: &'static str,
    pub detail: String,
}

fn f(class: Class, oracle: &'static str, detail: String) -> Finding {
    Finding { class, oracle, detail }
}

fn range_samples(len: u64) -> Vec<(u64, u64)> {
    vec![(0, len), (0, 0), (1, len + 2), (len, len + 1), (0, u64::MAX), (1, 1), (0, 1)]
}

pub fn slice(data: &[u8], s: u64, e: u64) -> &[u8] {
    let l = data.len() as u64;
    let a = s.min(l) as usize;
    let b = e.min(l) as usize;
    if a <= b { &data[a..b] } else { &data[0..0] }
}

/// Every read the API offers, for every key of `universe`, against the model.
pub fn check_reads<K: HKey>(cas: &Cas<K>, m: &Model<K>, universe: &[u8], out: &mut Vec<Finding>) {
    let r = catch(|| {
        let mut out = Vec::new();
        for &ki in universe {
            let Some(key) = K::make(ki) else { continue };
            let want = m.map.get(&key);
            let lab = K::label(ki);
            match cas.get(&key) {
                Ok(got) => {
                    if got.as_deref() != want.map(|v| v.as_slice()) {
                        out.push(f(Class::Reads, "get", format!("get({lab}) = {:?}, model {:?}", got.as_deref().map(show), want.map(|v| show(v)))));
                    }
                }
                Err(e) => out.push(f(Class::Reads, "get-err", format!("get({lab}) failed: {}", err_chain(&e)))),
            }
            match cas.get_size(&key) {
                Ok(got) => {
                    if got != want.map(|v| v.len() as u64) {
                        out.push(f(Class::Reads, "get_size", format!("get_size({lab}) = {got:?}, model {:?}", want.map(|v| v.len()))));
                        out.push(f(Class::Counts, "key-size", format!("recorded size of {lab} = {got:?}, content length {:?}", want.map(|v| v.len()))));
                    }
                }
                Err(e) => out.push(f(Class::Reads, "get_size-err", format!("get_size({lab}) failed: {}", err_chain(&e)))),
            }
            match cas.get_reader(&key) {
                Ok(None) => {
                    if want.is_some() {
                        out.push(f(Class::Reads, "get_reader", format!("get_reader({lab}) = None, model has a value")));
                    }
                }
                Ok(Some(mut rd)) => {
                    let mut buf = Vec::new();
                    let res = rd.read_to_end(&mut buf);
                    if res.is_err() || Some(&buf) != want {
                        out.push(f(Class::Reads, "get_reader", format!("get_reader({lab}) streamed {} ({res:?}), model {:?}", show(&buf), want.map(|v| show(v)))));
                    }
                }
                Err(e) => out.push(f(Class::Reads, "get_reader-err", format!("get_reader({lab}) failed: {}", err_chain(&e)))),
            }
            let len = want.map_or(2, |v| v.len() as u64);
            for (s, e) in range_samples(len) {
                match (cas.get_range(&key, s, e), want) {
                    (Ok(None), None) => {}
                    (Ok(Some(got)), Some(w)) if s <= e => {
                        if got.as_ref() != slice(w, s, e) {
                            out.push(f(Class::Reads, "get_range", format!("get_range({lab},{s},{e}) = {}, want {}", show(&got), show(slice(w, s, e)))));
                        }
                    }
                    (Ok(got), w) => out.push(f(Class::Reads, "get_range", format!("get_range({lab},{s},{e}) = {:?}, model {:?}", got.as_deref().map(show), w.map(|v| show(v))))),
                    (Err(e2), _) => out.push(f(Class::Reads, "get_range-err", format!("get_range({lab},{s},{e}) failed: {}", err_chain(&e2)))),
                }
            }
        }
        // index view: iteration order, items, len, ranges
        {
            let st = cas.read_index_state();
            let got: Vec<(K, [u8; 32], u64)> = st.iter().map(|(k, it)| (k.clone(), *it.blob_hash.as_bytes(), it.blob_size)).collect();
            let want: Vec<(K, [u8; 32], u64)> = m.map.iter().map(|(k, v)| (k.clone(), b3(v), v.len() as u64)).collect();
            if got.iter().map(|x| &x.0).ne(want.iter().map(|x| &x.0)) {
                out.push(f(Class::Reads, "iter-keys", format!("iter() keys {:?}, model {:?}", got.iter().map(|x| &x.0).collect::<Vec<_>>(), want.iter().map(|x| &x.0).collect::<Vec<_>>())));
            } else if got != want {
                out.push(f(Class::Reads, "iter-items", format!("iter() items differ from (blake3(content), len) of the model: {:?}", got.iter().zip(&want).filter(|(a, b)| a != b).map(|(a, _)| (&a.0, hex(&a.1[..4]), a.2)).collect::<Vec<_>>())));
                if got.iter().zip(&want).any(|(a, b)| a.2 != b.2) {
                    out.push(f(Class::Counts, "key-size", "a key's recorded size differs from its content length".to_string()));
                }
            }
            if st.len() != m.map.len() || st.is_empty() != m.map.is_empty() {
                out.push(f(Class::Reads, "len", format!("len() = {}, model {}", st.len(), m.map.len())));
            }
            let snap = st.keys_snapshot();
            if snap.keys().ne(m.map.keys()) {
                out.push(f(Class::Reads, "keys_snapshot", "keys_snapshot() differs from model".to_string()));
            }
            for &ki in universe {
                let Some(key) = K::make(ki) else { continue };
                if st.contains_key(&key) != m.map.contains_key(&key) || st.get_item(&key).is_some() != m.map.contains_key(&key) {
                    out.push(f(Class::Reads, "contains_key", format!("contains_key/get_item({}) disagrees with model", K::label(ki))));
                }
            }
            let small: Vec<u8> = universe.iter().copied().filter(|&k| k != keys::BIG && K::make(k).is_some()).collect();
            for (lo, hi) in all_ranges::<K>(&small) {
                let (lb, hb) = (lo.to_bound::<K>(), hi.to_bound::<K>());
                let got: Vec<&K> = st.range::<K, _>((lb.as_ref(), hb.as_ref())).map(|(k, _)| k).collect();
                let want: Vec<&K> = m.map.range((lb.clone(), hb.clone())).map(|(k, _)| k).collect();
                if got != want {
                    out.push(f(Class::Reads, "range", format!("range({lo:?},{hi:?}) = {got:?}, model {want:?}")));
                }
            }
            let _ = B::Unb;
        }
        out
    });
    match r {
        Ok(v) => out.extend(v),
        Err(p) => out.push(f(Class::Reads, "read-panic", format!("a read panicked: {p}"))),
    }
}

/// Reference counts, known blobs, statistics (C12) and the snapshot-size statistic (C02).
pub fn check_counts<K: HKey>(cas: &Cas<K>, m: &Model<K>, dir: &Path, out: &mut Vec<Finding>) {
    let st = cas.read_index_state();
    let mut got: Vec<([u8; 32], u32)> = st.known_blobs().map(|(h, c)| (*h.as_bytes(), *c)).collect();
    got.sort();
    let blobs = m.blobs();
    let want: Vec<([u8; 32], u32)> = blobs.iter().map(|(h, (c, _))| (*h, *c)).collect();
    if got != want {
        out.push(f(Class::Counts, "refcounts", format!(
            "known_blobs() = {:?}, model {:?}",
            got.iter().map(|(h, c)| (hex(&h[..4]), *c)).collect::<Vec<_>>(),
            want.iter().map(|(h, c)| (hex(&h[..4]), *c)).collect::<Vec<_>>()
        )));
    }
    for (h, _) in &want {
        if !st.contains_blob_hash(&cassadilia::BlobHash(*h)) {
            out.push(f(Class::Counts, "contains_blob_hash", format!("contains_blob_hash({}) is false for a referenced content", hex(&h[..4]))));
        }
    }
    let stats = st.stats();
    let uniq = blobs.len() as u64;
    let total: u64 = blobs.values().map(|(_, s)| *s).sum();
    if stats.cas.unique_blobs != uniq || stats.cas.total_bytes != total {
        out.push(f(Class::Counts, "stats", format!(
            "stats.cas = (unique {}, bytes {}), model (unique {uniq}, bytes {total})",
            stats.cas.unique_blobs, stats.cas.total_bytes
        )));
    }
    let flen = std::fs::metadata(dir.join("index")).map_or(0, |m| m.len());
    if stats.index.serialized_size_bytes != flen {
        out.push(f(Class::IndexStat, "index-size-stat", format!(
            "stats.index.serialized_size_bytes = {}, but the index file has {flen} bytes",
            stats.index.serialized_size_bytes
        )));
    }
}

/// cas/ holds exactly one intact file per distinct referenced content; staging/ is empty.
pub fn check_dir<K: HKey>(dir: &Path, m: &Model<K>, out: &mut Vec<Finding>) {
    let cas = Image::load(&dir.join("cas"));
    let want = m.cas_files();
    let got: std::collections::BTreeSet<String> = cas.files.keys().cloned().collect();
    if got != want {
        let extra: Vec<&String> = got.difference(&want).collect();
        let missing: Vec<&String> = want.difference(&got).collect();
        out.push(f(Class::Dir, if missing.is_empty() { "cas-extra" } else { "cas-missing" }, format!("cas/ differs from one-file-per-referenced-content: extra {extra:?}, missing {missing:?}")));
    }
    for (rel, data) in &cas.files {
        if let Some(h) = crate::ondisk::hash_of_path(rel) {
            if b3(data) != h {
                out.push(f(Class::Blob, "cas-content", format!("cas/{rel} holds {}, not the bytes its name encodes", show(data))));
            }
        }
    }
    let st = Image::load(&dir.join("staging"));
    if !st.files.is_empty() {
        out.push(f(Class::Dir, "staging-nonempty", format!("staging/ holds {:?}", st.files.keys().collect::<Vec<_>>())));
    }
}

pub fn check_all<K: HKey>(cas: &Cas<K>, m: &Model<K>, dir: &Path, universe: &[u8]) -> Vec<Finding> {
    let mut out = Vec::new();
    check_reads(cas, m, universe, &mut out);
    let r = catch(|| {
        let mut o = Vec::new();
        check_counts(cas, m, dir, &mut o);
        o
    });
    match r {
        Ok(v) => out.extend(v),
        Err(p) => out.push(f(Class::Counts, "counts-panic", format!("reading counts panicked: {p}"))),
    }
    check_dir(dir, m, &mut out);
    out
}
