//! POWER — power-loss images in Sync mode (C09): every cut of the store's filesystem-call trace combined
//! with every subset of files losing the bytes not covered by an explicit sync of that file. Directory
//! operations persist in issue order. The reconstruction from the trace is validated against the live
//! directory snapshot at EVERY cut (no-loss image == live copy, byte for byte).

use crate::crash::{self, Ctx};
use crate::keys::HKey;
use crate::model::Model;
use crate::ops::{self, Cfg, Op};
use crate::real::Store;
use crate::report::{Violation, WorkerResult};
use crate::shim::{self, Kind, Phase};
use crate::util::{self, Image};
use serde_json::{Value, json};
use std::collections::{BTreeMap, BTreeSet};
use std::path::Path;
use std::sync::{Arc, Mutex};

#[derive(Clone, Debug)]
pub struct TEv {
    pub kind: Kind,
    pub rel: String,
    pub rel2: Option<String>,
    pub fd: i32,
    pub flags: i32,
    pub off: i64,
    pub len: i64,
    pub data: Vec<u8>,
    pub ret: i64,
    pub mutating: bool,
    pub show: String,
}

#[derive(Clone, Debug, Default)]
pub struct Inode {
    pub content: Vec<u8>,
    pub synced: Vec<u8>,
}

#[derive(Clone, Debug, Default)]
pub struct FsModel {
    pub names: BTreeMap<String, usize>,
    pub dirs: BTreeSet<String>,
    pub inodes: Vec<Inode>,
    /// fd -> (inode, position, append)
    pub fds: BTreeMap<i32, (usize, u64, bool)>,
    pub unmodelled: Vec<String>,
}

impl FsModel {
    pub fn from_image(im: &Image) -> FsModel {
        let mut m = FsModel::default();
        m.dirs = im.dirs.clone();
        for (p, d) in &im.files {
            m.inodes.push(Inode { content: d.clone(), synced: d.clone() });
            m.names.insert(p.clone(), m.inodes.len() - 1);
        }
        m
    }

    pub fn apply(&mut self, e: &TEv) {
        if e.ret < 0 {
            return;
        }
        match e.kind {
            Kind::Open => {
                let wr = e.flags & (libc::O_CREAT | libc::O_TRUNC | libc::O_APPEND) != 0 || (e.flags & libc::O_ACCMODE) != libc::O_RDONLY;
                if !wr {
                    return;
                }
                let ino = match self.names.get(&e.rel) {
                    Some(i) => *i,
                    None => {
                        self.inodes.push(Inode::default());
                        let i = self.inodes.len() - 1;
                        self.names.insert(e.rel.clone(), i);
                        i
                    }
                };
                if e.flags & libc::O_TRUNC != 0 {
                    self.inodes[ino].content.clear();
                }
                self.fds.insert(e.ret as i32, (ino, 0, e.flags & libc::O_APPEND != 0));
            }
            Kind::Write => {
                if let Some((ino, pos, app)) = self.fds.get(&e.fd).copied() {
                    let n = e.ret as usize;
                    let c = &mut self.inodes[ino].content;
                    let off = if app { c.len() } else { pos as usize };
                    if c.len() < off + n {
                        c.resize(off + n, 0);
                    }
                    c[off..off + n].copy_from_slice(&e.data[..n]);
                    self.fds.insert(e.fd, (ino, (off + n) as u64, app));
                }
            }
            Kind::Pwrite => {
                if let Some((ino, _, _)) = self.fds.get(&e.fd).copied() {
                    let n = e.ret as usize;
                    let off = e.off as usize;
                    let c = &mut self.inodes[ino].content;
                    if c.len() < off + n {
                        c.resize(off + n, 0);
                    }
                    c[off..off + n].copy_from_slice(&e.data[..n]);
                }
            }
            Kind::Fsync | Kind::Fdatasync => {
                if let Some((ino, _, _)) = self.fds.get(&e.fd).copied() {
                    self.inodes[ino].synced = self.inodes[ino].content.clone();
                }
            }
            Kind::Ftruncate => {
                if let Some((ino, _, _)) = self.fds.get(&e.fd).copied() {
                    self.inodes[ino].content.resize(e.len as usize, 0);
                }
            }
            Kind::Rename => {
                if let (Some(ino), Some(to)) = (self.names.remove(&e.rel), e.rel2.clone()) {
                    self.names.insert(to, ino);
                } else {
                    self.unmodelled.push(e.show.clone());
                }
            }
            Kind::Unlink => {
                self.names.remove(&e.rel);
            }
            Kind::Mkdir => {
                self.dirs.insert(e.rel.clone());
            }
            Kind::Close => {
                self.fds.remove(&e.fd);
            }
            Kind::Stat | Kind::Flock => {}
            _ => self.unmodelled.push(e.show.clone()),
        }
    }

    /// Inodes that are reachable by name and hold bytes not covered by a sync.
    pub fn dirty(&self) -> Vec<usize> {
        let mut v: Vec<usize> = self.names.values().copied().filter(|i| self.inodes[*i].content != self.inodes[*i].synced).collect();
        v.sort();
        v.dedup();
        v
    }

    pub fn image(&self, lost: &[usize]) -> Image {
        let mut im = Image::default();
        im.dirs = self.dirs.iter().filter(|d| !d.is_empty()).cloned().collect();
        for (p, i) in &self.names {
            let ino = &self.inodes[*i];
            im.files.insert(p.clone(), if lost.contains(i) { ino.synced.clone() } else { ino.content.clone() });
        }
        im
    }
}

pub struct Traced {
    pub events: Vec<TEv>,
    /// (number of events completed before the snapshot, live image, acked, inflight, call about to be made)
    pub cuts: Vec<(usize, Image, usize, Option<usize>, String)>,
}

pub fn trace_history<K: HKey>(dir: &Path, cfg: &Cfg, opsq: &[Op]) -> (Traced, Option<String>) {
    let events: Arc<Mutex<Vec<TEv>>> = Arc::new(Mutex::new(Vec::new()));
    let cuts: Arc<Mutex<Vec<(usize, Image, usize, Option<usize>, String)>>> = Arc::new(Mutex::new(Vec::new()));
    let cur: Arc<Mutex<(usize, Option<usize>)>> = Arc::new(Mutex::new((0, None)));
    let (e2, c2, cur2, d2) = (events.clone(), cuts.clone(), cur.clone(), dir.to_path_buf());
    shim::arm(
        dir,
        Arc::new(move |ev, ph| {
            match ph {
                Phase::Pre => {
                    if ev.mutating {
                        let (a, i) = *cur2.lock().unwrap();
                        let n = e2.lock().unwrap().len();
                        c2.lock().unwrap().push((n, Image::load(&d2), a, i, ev.show()));
                    }
                }
                Phase::Post { ret, .. } => {
                    e2.lock().unwrap().push(TEv {
                        kind: ev.kind,
                        rel: ev.rel.clone(),
                        rel2: ev.rel2.clone(),
                        fd: ev.fd,
                        flags: ev.flags,
                        off: ev.off,
                        len: ev.len,
                        data: ev.data.to_vec(),
                        ret,
                        mutating: ev.mutating,
                        show: ev.show(),
                    });
                }
            }
            0
        }),
    );
    shim::participate(true);
    let err = (|| {
        let mut st = match Store::<K>::open(dir, cfg.config()) {
            Ok(s) => s,
            Err(e) => return Some(format!("open failed: {e}")),
        };
        for (i, op) in opsq.iter().enumerate() {
            *cur.lock().unwrap() = (i, Some(i));
            if let Err(e) = st.apply(op) {
                return Some(format!("op {i} failed: {e}"));
            }
            *cur.lock().unwrap() = (i + 1, None);
        }
        st.close();
        None
    })();
    shim::participate(false);
    shim::disarm();
    let (a, i) = *cur.lock().unwrap();
    let n = events.lock().unwrap().len();
    cuts.lock().unwrap().push((n, Image::load(dir), a, i, "end of history".into()));
    let t = Traced { events: std::mem::take(&mut *events.lock().unwrap()), cuts: std::mem::take(&mut *cuts.lock().unwrap()) };
    (t, err)
}

pub fn case_json<K: HKey>(cfg: &Cfg, prefix: &[Op], opsq: &[Op], cut: usize, lost: &[String]) -> Value {
    json!({"engine": "power", "key": K::NAME, "cfg": cfg, "prefix": prefix, "ops": opsq, "cut": cut, "lost": lost,
           "text": format!("prefix [{}] history [{}]", ops::show_seq::<K>(prefix), ops::show_seq::<K>(opsq))})
}

pub fn run_case<K: HKey>(cfg: &Cfg, prefix: &[Op], opsq: &[Op], only: Option<(usize, Vec<String>)>, res: &mut WorkerResult, verbose: bool) -> Vec<Violation> {
    let mut vs = Vec::new();
    let dir = util::fresh_dir("pw");
    let mut model = Model::<K>::default();
    if !prefix.is_empty() {
        let mut st = Store::<K>::open(&dir, cfg.config()).expect("prefix open");
        for op in prefix {
            st.apply(op).expect("prefix op");
            model.apply(op);
        }
        st.close();
    }
    let start = Image::load(&dir);
    let mut models = vec![model.clone()];
    for op in opsq {
        model.apply(op);
        models.push(model.clone());
    }
    let (tr, err) = trace_history::<K>(&dir, cfg, opsq);
    util::rm_rf(&dir);
    if let Some(e) = err {
        let mut v = Violation::new(&["C09"], "history-op-failed", e);
        v.replay = case_json::<K>(cfg, prefix, opsq, 0, &[]);
        return vec![v];
    }
    res.count("histories", 1);
    let mut all: Vec<Op> = prefix.to_vec();
    all.extend_from_slice(opsq);
    let mut universe = crate::seq::universe_of(&all);
    for k in [0u8, 1] {
        if !universe.contains(&k) {
            universe.push(k);
        }
    }
    let ctx = Ctx { cfg, universe: &universe, max_nest: 0, verify_too: false };
    let mut fs = FsModel::from_image(&start);
    let mut applied = 0usize;
    let mut seen_imgs: Vec<(usize, Option<usize>, Image)> = Vec::new();
    for (ci, (nev, live, acked, inflight, call)) in tr.cuts.iter().enumerate() {
        while applied < *nev {
            fs.apply(&tr.events[applied]);
            applied += 1;
        }
        if !fs.unmodelled.is_empty() {
            eprintln!("MACHINERY: filesystem call not modelled by the power-loss reconstruction: {:?}", fs.unmodelled);
            std::process::exit(2);
        }
        // bind the model to reality: the no-loss reconstruction must equal the live directory
        let recon = fs.image(&[]);
        if recon.files != live.files {
            eprintln!("MACHINERY: trace reconstruction differs from the live directory at cut {ci} before {call}: {}", recon.diff(live));
            std::process::exit(2);
        }
        res.count("validated", 1);
        if let Some((c, _)) = &only {
            if *c != ci {
                continue;
            }
        }
        let dirty = fs.dirty();
        // staging names are random: canonicalise them so that a replay finds the same subset
        let names = |set: &[usize]| -> Vec<String> {
            let mut v: Vec<String> = fs.names.iter().filter(|(_, i)| set.contains(i)).map(|(p, _)| if p.starts_with("staging/") { "staging/#".to_string() } else { p.clone() }).collect();
            v.sort();
            v
        };
        let m0 = &models[*acked];
        let m1 = match inflight {
            Some(i) if models[i + 1] != *m0 => Some(&models[i + 1]),
            _ => None,
        };
        // every subset of dirty inodes. The empty subset (everything written so far happens to have reached the disk) is the
        // process-kill image of the CRASH engine; it is included here whenever unsynced bytes exist at this cut.
        for mask in (if dirty.is_empty() { 1u32 } else { 0u32 })..(1u32 << dirty.len().min(10)) {
            let lost: Vec<usize> = dirty.iter().enumerate().filter(|(b, _)| mask & (1 << b) != 0).map(|(_, i)| *i).collect();
            let lost_names = names(&lost);
            if let Some((_, want)) = &only {
                if *want != lost_names {
                    continue;
                }
            }
            let im = fs.image(&lost);
            if seen_imgs.iter().any(|(a, i, x)| a == acked && i == inflight && *x == im) {
                continue;
            }
            seen_imgs.push((*acked, *inflight, im.clone()));
            res.state(&format!("{:?}", (crate::util::b3(format!("{im:?}").as_bytes()), acked, inflight)));
            let mut out = Vec::new();
            let mut seen = BTreeMap::new();
            crash::check_image::<K>(&im, m0, m1, &ctx, 0, res, &mut seen, &mut out);
            if verbose {
                println!("  cut {ci} before {call}: lose unsynced bytes of {lost_names:?} -> {} finding(s)", out.len());
            }
            for (props, oracle, detail) in out {
                // the C03 guarantee must hold on the power-loss image; structural (C06/C20/C08/C12) oracles belong to other properties
                if !props.contains(&"C03") {
                    continue;
                }
                let classes: Vec<&str> = lost_names.iter().map(|p| shim::file_class(p)).collect();
                let mut v = Violation::new(
                    &["C09"],
                    &oracle,
                    format!("[{} {}] prefix `{}` history `{}`: power lost before call #{ci} {call} (acked {acked} ops, in flight {:?}), files {lost_names:?} lose their unsynced bytes: {detail}",
                        K::NAME, cfg.show(), ops::show_seq::<K>(prefix), ops::show_seq::<K>(opsq), inflight.map(|i| opsq[i].show::<K>())),
                );
                v.sig = format!("{oracle}|lost={}|inflight={}", classes.join("+"), inflight.map(|i| crash::op_class(&opsq[i])).unwrap_or("none"));
                v.replay = case_json::<K>(cfg, prefix, opsq, ci, &lost_names);
                vs.push(v);
            }
        }
        res.count("cuts", 1);
    }
    vs
}

pub fn run(tier: &str, slice: (u64, u64), seed: u64) -> WorkerResult {
    shim::require();
    let mut res = WorkerResult::new("power");
    let mut j = 0u64;
    // same history sets as the CRASH engine, Sync mode only
    for sr in crash::plan(tier).into_iter().filter(|s| !s.cfg.async_mode) {
        let depth = sr.depth;
        let total = ops::seq_count(&sr.alphabet, depth);
        for i in 0..total {
            j += 1;
            if j % slice.1 != slice.0 {
                continue;
            }
            let idx = (i + seed) % total;
            let opsq = ops::seq_of(&sr.alphabet, depth, idx);
            let vs = run_case::<String>(&sr.cfg, &sr.prefix, &opsq, None, &mut res, false);
            if res.samples.len() < 2 && idx % 97 == 55 {
                res.sample(case_json::<String>(&sr.cfg, &sr.prefix, &opsq, 0, &[]));
            }
            for v in vs {
                res.violate(v);
            }
        }
        if slice.0 == 0 {
            res.completed.push(format!("{} {}: all {} histories of depth {} over {} symbols, prefix [{}]: every cut x every subset of files with unsynced bytes (the empty subset only where unsynced bytes exist)", sr.label, sr.cfg.show(), total, depth, sr.alphabet.len(), ops::show_seq::<String>(&sr.prefix)));
        }
    }
    res
}

pub fn replay(case: &Value) -> Vec<Violation> {
    shim::require();
    let cfg: Cfg = serde_json::from_value(case["cfg"].clone()).expect("cfg");
    let prefix: Vec<Op> = serde_json::from_value(case["prefix"].clone()).expect("prefix");
    let opsq: Vec<Op> = serde_json::from_value(case["ops"].clone()).expect("ops");
    let cut = case["cut"].as_u64().unwrap_or(0) as usize;
    let lost: Vec<String> = serde_json::from_value(case["lost"].clone()).unwrap_or_default();
    let mut res = WorkerResult::new("power");
    run_case::<String>(&cfg, &prefix, &opsq, Some((cut, lost)), &mut res, true)
}
