//! SEQTX — sequential histories in which transactions stay OPEN across other operations on the same
//! handle (begin / write / finish / drop are separate symbols, two transaction slots). Serves the parts of
//! C01, C07, C12 and C13 that quantify over overlapping transaction lifetimes ("also while another
//! transaction on the same key is open or committing").

use crate::keys::{self, HKey};
use crate::model::Model;
use crate::ops::Cfg;
use crate::real::{self, Class};
use crate::report::{Violation, WorkerResult};
use crate::util::{self, Image};
use cassadilia::{Cas, Transaction};
use serde::{Deserialize, Serialize};
use serde_json::{Value, json};
use std::collections::BTreeMap;

type K = String;

#[derive(Clone, Copy, Debug, PartialEq, Eq, Hash, Serialize, Deserialize)]
pub enum XOp {
    Begin { s: u8, k: u8 },
    Write { s: u8, c: u8 },
    Finish { s: u8 },
    Drop { s: u8 },
    Put { k: u8, c: u8 },
    Remove { k: u8 },
    Checkpoint,
    Reopen,
}

impl XOp {
    pub fn show(&self) -> String {
        let kn = |k: u8| <K as HKey>::label(k);
        match *self {
            XOp::Begin { s, k } => format!("t{s}=begin {}", kn(k)),
            XOp::Write { s, c } => format!("t{s}.write {}", keys::content_name(c)),
            XOp::Finish { s } => format!("t{s}.finish"),
            XOp::Drop { s } => format!("drop t{s}"),
            XOp::Put { k, c } => format!("put {}={}", kn(k), keys::content_name(c)),
            XOp::Remove { k } => format!("remove {}", kn(k)),
            XOp::Checkpoint => "checkpoint".into(),
            XOp::Reopen => "reopen".into(),
        }
    }
}

pub fn show_seq(ops: &[XOp]) -> String {
    ops.iter().map(|o| o.show()).collect::<Vec<_>>().join(" ; ")
}

pub fn alphabet() -> Vec<XOp> {
    use keys::{C_X, C_Y};
    vec![
        XOp::Begin { s: 0, k: 0 },
        XOp::Begin { s: 1, k: 0 },
        XOp::Begin { s: 1, k: 1 },
        XOp::Write { s: 0, c: C_X },
        XOp::Write { s: 1, c: C_X },
        XOp::Write { s: 1, c: C_Y },
        XOp::Finish { s: 0 },
        XOp::Finish { s: 1 },
        XOp::Drop { s: 0 },
        XOp::Drop { s: 1 },
        XOp::Put { k: 0, c: C_Y },
        XOp::Remove { k: 0 },
        XOp::Reopen,
    ]
}

struct Slot<'a> {
    tx: Transaction<'a, K>,
    key: K,
    bytes: Vec<u8>,
}

pub fn case_json(cfg: &Cfg, prefix: &[XOp], ops: &[XOp]) -> Value {
    json!({"engine": "seqtx", "cfg": cfg, "prefix": prefix, "ops": ops, "text": format!("prefix [{}] then [{}]", show_seq(prefix), show_seq(ops))})
}

/// A symbol that cannot be executed in the current state (write on an empty slot, begin on a busy one) is skipped.
pub fn run_case(cfg: &Cfg, prefix: &[XOp], opsq: &[XOp], res: &mut WorkerResult, verbose: bool) -> Vec<Violation> {
    let dir = util::fresh_dir("stx");
    let mut vs: Vec<Violation> = Vec::new();
    let all: Vec<XOp> = prefix.iter().chain(opsq.iter()).copied().collect();
    let mk = |props: Vec<&str>, oracle: &str, detail: String, upto: usize| {
        let mut v = Violation::new(&props, oracle, format!("[{}] after `{}`: {detail}", cfg.show(), show_seq(&all[..upto])));
        let (p, o) = if upto <= prefix.len() { (&all[..upto], &all[0..0]) } else { (prefix, &all[prefix.len()..upto]) };
        v.replay = case_json(cfg, p, o);
        v
    };
    let mut cas: Option<Cas<K>> = match real::open_cas::<K>(&dir, &cfg.config()) {
        Ok(c) => Some(c),
        Err(e) => {
            vs.push(mk(vec!["C01"], "open-failed", e, 0));
            return vs;
        }
    };
    let mut model = Model::<K>::default();
    let mut seen: BTreeMap<u64, [u8; 32]> = BTreeMap::new();
    // SAFETY of the lifetime extension below: every slot is dropped before the handle it borrows (see Reopen and the end).
    let mut slots: [Option<Slot<'static>>; 2] = [None, None];
    let universe = [0u8, 1];
    for (i, op) in all.iter().enumerate() {
        let upto = i + 1;
        let handle: &'static Cas<K> = unsafe { std::mem::transmute::<&Cas<K>, &'static Cas<K>>(cas.as_ref().unwrap()) };
        let open_before = slots.iter().filter(|s| s.is_some()).count();
        let before = if matches!(op, XOp::Drop { .. }) { Some(Image::load(&dir)) } else { None };
        let mut skipped = false;
        let r: Result<(), String> = match *op {
            XOp::Begin { s, k } => {
                if slots[s as usize].is_some() {
                    skipped = true;
                    Ok(())
                } else {
                    let key = <K as HKey>::make(k).unwrap();
                    match util::catch(|| handle.put(key.clone())) {
                        Ok(Ok(tx)) => {
                            slots[s as usize] = Some(Slot { tx, key, bytes: Vec::new() });
                            Ok(())
                        }
                        Ok(Err(e)) => Err(util::err_chain(&e)),
                        Err(p) => Err(format!("PANIC: {p}")),
                    }
                }
            }
            XOp::Write { s, c } => match slots[s as usize].as_mut() {
                None => {
                    skipped = true;
                    Ok(())
                }
                Some(sl) => {
                    let data = keys::content(c);
                    sl.bytes.extend_from_slice(data);
                    match util::catch(std::panic::AssertUnwindSafe(|| sl.tx.write(data))) {
                        Ok(Ok(())) => Ok(()),
                        Ok(Err(e)) => Err(util::err_chain(&e)),
                        Err(p) => Err(format!("PANIC: {p}")),
                    }
                }
            },
            XOp::Finish { s } => match slots[s as usize].take() {
                None => {
                    skipped = true;
                    Ok(())
                }
                Some(sl) => {
                    model.map.insert(sl.key.clone(), sl.bytes.clone());
                    model.next_ver += 1;
                    match util::catch(|| sl.tx.finish()) {
                        Ok(Ok(())) => Ok(()),
                        Ok(Err(e)) => Err(util::err_chain(&e)),
                        Err(p) => Err(format!("PANIC: {p}")),
                    }
                }
            },
            XOp::Drop { s } => {
                if slots[s as usize].take().is_none() {
                    skipped = true;
                }
                Ok(())
            }
            XOp::Put { k, c } => {
                let data = keys::content(c);
                model.map.insert(<K as HKey>::make(k).unwrap(), data.to_vec());
                model.next_ver += 1;
                real::put_chunks(handle, <K as HKey>::make(k).unwrap(), &[data], true)
            }
            XOp::Remove { k } => {
                let key = <K as HKey>::make(k).unwrap();
                let want = model.map.remove(&key).is_some();
                if want {
                    model.next_ver += 1;
                }
                match util::catch(|| handle.remove(&key)) {
                    Ok(Ok(b)) if b == want => Ok(()),
                    Ok(Ok(b)) => Err(format!("returned {b}, model {want}")),
                    Ok(Err(e)) => Err(util::err_chain(&e)),
                    Err(p) => Err(format!("PANIC: {p}")),
                }
            }
            XOp::Checkpoint => match util::catch(|| handle.checkpoint()) {
                Ok(Ok(())) => Ok(()),
                Ok(Err(e)) => Err(util::err_chain(&e)),
                Err(p) => Err(format!("PANIC: {p}")),
            },
            XOp::Reopen => {
                // open transactions are abandoned by dropping them before the handle
                slots = [None, None];
                cas = None;
                match real::open_cas::<K>(&dir, &cfg.config()) {
                    Ok(c) => {
                        cas = Some(c);
                        Ok(())
                    }
                    Err(e) => Err(e),
                }
            }
        };
        res.count("steps", 1);
        if verbose {
            println!("  step {upto}: {}{} -> {:?}", op.show(), if skipped { " (not applicable, skipped)" } else { "" }, r);
        }
        if let Err(e) = r {
            let props = match op {
                XOp::Finish { .. } if open_before == 2 => vec!["C13", "C01"],
                XOp::Drop { .. } => vec!["C13"],
                XOp::Reopen => vec!["C02"],
                _ => vec!["C01"],
            };
            vs.push(mk(props, "op-failed", format!("`{}` failed without any fault: {e}", op.show()), upto));
            break;
        }
        let Some(c) = cas.as_ref() else { break };
        if let Some(b) = before {
            if !skipped {
                let mut after = Image::load(&dir);
                let mut b2 = b.clone();
                // only the abandoned staging file may disappear
                b2.files.retain(|p, _| !p.starts_with("staging/"));
                after.files.retain(|p, _| !p.starts_with("staging/"));
                if !b2.eq_ignoring_lock(&after) {
                    vs.push(mk(vec!["C13"], "abort-changed-files", format!("files changed across an abandoned transaction: {}", b2.diff(&after)), upto));
                }
            }
        }
        let open_now = slots.iter().filter(|s| s.is_some()).count();
        let any_tx = prefix.iter().chain(opsq.iter()).take(upto).any(|o| matches!(o, XOp::Begin { .. }));
        for fd in real::check_all(c, &model, &dir, &universe) {
            // staging/ legitimately holds one file per open transaction
            if fd.oracle == "staging-nonempty" {
                let n = Image::load(&dir.join("staging")).files.len();
                if n == open_now {
                    continue;
                }
            }
            let mut props: Vec<&str> = match fd.class {
                Class::Reads => vec!["C01"],
                Class::Counts => vec!["C12"],
                Class::IndexStat => vec!["C02"],
                Class::Dir => vec!["C07"],
                Class::Blob => vec!["C06"],
            };
            if any_tx {
                props.push("C13");
            }
            vs.push(mk(props, fd.oracle, fd.detail, upto));
        }
        if let Some((p, o, d)) = crate::seq::disk_check::<K>(&dir, cfg.n, &model, &mut seen, false) {
            vs.push(mk(p, o, d, upto));
        }
        if !vs.is_empty() {
            break;
        }
        res.state(&format!("{}|{:?}|{}", model.canon(), slots.iter().map(|s| s.as_ref().map(|x| (x.key.clone(), x.bytes.len()))).collect::<Vec<_>>(), (model.next_ver - 1) % cfg.n.min(4)));
    }
    // leaf: abandon what is open, restart, compare
    slots = [None, None];
    drop(slots);
    if vs.is_empty() {
        cas = None;
        match real::open_cas::<K>(&dir, &cfg.config()) {
            Err(e) => vs.push(mk(vec!["C02", "C13"], "reopen-failed", e, all.len())),
            Ok(c) => {
                for fd in real::check_all(&c, &model, &dir, &universe) {
                    let props: Vec<&str> = match fd.class {
                        Class::Reads => vec!["C02", "C13"],
                        Class::Counts => vec!["C12", "C02"],
                        Class::IndexStat => vec!["C02"],
                        Class::Dir => vec!["C07", "C13"],
                        Class::Blob => vec!["C06"],
                    };
                    let mut v = mk(props, fd.oracle, format!("(after the final restart) {}", fd.detail), all.len());
                    v.sig = format!("{}@restart", fd.oracle);
                    vs.push(v);
                }
            }
        }
    }
    drop(cas);
    util::rm_rf(&dir);
    vs
}

pub fn run(tier: &str, slice: (u64, u64), seed: u64) -> WorkerResult {
    let mut res = WorkerResult::new("seqtx");
    let alpha = alphabet();
    let a = alpha.len() as u64;
    let plans: Vec<(Cfg, Vec<XOp>, usize)> = {
        let px = vec![XOp::Put { k: 0, c: keys::C_X }];
        let c = |n| Cfg { n, async_mode: false };
        if tier == "quick" {
            vec![(c(10_000), px.clone(), 4), (c(2), vec![], 4), (c(1), px.clone(), 3)]
        } else {
            vec![(c(10_000), px.clone(), 5), (c(2), vec![], 5), (c(1), px.clone(), 5), (c(3), px, 4)]
        }
    };
    let mut j = 0u64;
    for (cfg, prefix, d) in &plans {
        let total = a.pow(*d as u32);
        for i in 0..total {
            j += 1;
            if j % slice.1 != slice.0 {
                continue;
            }
            let mut idx = (i + seed) % total;
            let mut opsq = vec![alpha[0]; *d];
            for p in (0..*d).rev() {
                opsq[p] = alpha[(idx % a) as usize];
                idx /= a;
            }
            for v in run_case(cfg, prefix, &opsq, &mut res, false) {
                res.violate(v);
            }
            res.count("sequences", 1);
            if res.samples.len() < 2 && i % 997 == 123 {
                res.sample(case_json(cfg, prefix, &opsq));
            }
        }
        if slice.0 == 0 {
            res.completed.push(format!("open-transaction histories {}: prefix [{}], all {} sequences of depth {} over {} symbols (begin/write/finish/drop on 2 slots, put, remove, reopen)", cfg.show(), show_seq(prefix), total, d, a));
        }
    }
    res
}

pub fn replay(case: &Value) -> Vec<Violation> {
    let cfg: Cfg = serde_json::from_value(case["cfg"].clone()).expect("cfg");
    let prefix: Vec<XOp> = serde_json::from_value(case["prefix"].clone()).expect("prefix");
    let opsq: Vec<XOp> = serde_json::from_value(case["ops"].clone()).expect("ops");
    let mut res = WorkerResult::new("seqtx");
    run_case(&cfg, &prefix, &opsq, &mut res, true)
}
