//! Reference model: a plain ordered map (plus the derived quantities the store reports).

use crate::keys::{self, HKey};
use crate::ops::Op;
use crate::util::{b3, hex};
use std::collections::{BTreeMap, BTreeSet};

#[derive(Clone, Copy, Debug, PartialEq, Eq)]
pub enum Ret {
    Unit,
    Bool(bool),
    Count(usize),
}

#[derive(Clone, Debug, PartialEq, Eq)]
pub struct Model<K: HKey> {
    /// key -> content bytes
    pub map: BTreeMap<K, Vec<u8>>,
    /// version the next logged operation will get (starts at 1)
    pub next_ver: u64,
}

impl<K: HKey> Default for Model<K> {
    fn default() -> Self {
        Model { map: BTreeMap::new(), next_ver: 1 }
    }
}

impl<K: HKey> Model<K> {
    /// Apply `op`; returns the value the API must return. `logs` tells whether a WAL record is written.
    pub fn apply(&mut self, op: &Op) -> Ret {
        match *op {
            Op::Put { k, c, .. } => {
                self.map.insert(K::make(k).unwrap(), keys::content(c).to_vec());
                self.next_ver += 1;
                Ret::Unit
            }
            Op::Abort { .. } | Op::Checkpoint | Op::Reopen => Ret::Unit,
            Op::Remove { k } => {
                let present = self.map.remove(&K::make(k).unwrap()).is_some();
                if present {
                    self.next_ver += 1;
                }
                Ret::Bool(present)
            }
            Op::RemoveRange { lo, hi } => {
                let ks: Vec<K> =
                    self.map.range((lo.to_bound::<K>(), hi.to_bound::<K>())).map(|(k, _)| k.clone()).collect();
                for k in &ks {
                    self.map.remove(k);
                }
                if !ks.is_empty() {
                    self.next_ver += 1;
                }
                Ret::Count(ks.len())
            }
        }
    }

    /// hash -> (refcount, size)
    pub fn blobs(&self) -> BTreeMap<[u8; 32], (u32, u64)> {
        let mut m = BTreeMap::new();
        for v in self.map.values() {
            let e = m.entry(b3(v)).or_insert((0u32, v.len() as u64));
            e.0 += 1;
        }
        m
    }

    /// Relative paths (under cas/) that must exist: one per distinct content.
    pub fn cas_files(&self) -> BTreeSet<String> {
        self.blobs().keys().map(|h| crate::ondisk::path_of_hash(h)).collect()
    }

    /// Canonical abstract state for counting: key -> content hash prefix.
    pub fn canon(&self) -> String {
        self.map
            .iter()
            .map(|(k, v)| format!("{:?}={}", k.to_key_bytes().as_ref().len().min(99), &hex(&b3(v))[..6]) + &format!("{k:?}").chars().take(6).collect::<String>())
            .collect::<Vec<_>>()
            .join(",")
    }
}
