//! Counting global allocator: bounds the bytes a guarded call may request. A violation cannot unwind out of
//! the allocator, so it is reported on stderr (with the current input) and the process exits with 77; the
//! sweeps that use the guard run in child processes (see input.rs).

use std::alloc::{GlobalAlloc, Layout, System};
use std::sync::atomic::{AtomicBool, AtomicUsize, Ordering};

pub struct Counting;

static ON: AtomicBool = AtomicBool::new(false);
static USED: AtomicUsize = AtomicUsize::new(0);
static LIMIT: AtomicUsize = AtomicUsize::new(usize::MAX);
static CUR_LEN: AtomicUsize = AtomicUsize::new(0);
static mut CUR: [u8; 512] = [0; 512];

/// Remember the input being processed (for the violation report).
pub fn set_current(desc: &[u8]) {
    let n = desc.len().min(512);
    unsafe {
        std::ptr::copy_nonoverlapping(desc.as_ptr(), (&raw mut CUR) as *mut u8, n);
    }
    CUR_LEN.store(n, Ordering::SeqCst);
}

pub fn guard<T>(limit: usize, f: impl FnOnce() -> T) -> (T, usize) {
    USED.store(0, Ordering::SeqCst);
    LIMIT.store(limit, Ordering::SeqCst);
    ON.store(true, Ordering::SeqCst);
    let r = f();
    ON.store(false, Ordering::SeqCst);
    (r, USED.load(Ordering::SeqCst))
}

/// Switch the guard off (e.g. inside a panic handler path).
pub fn off() {
    ON.store(false, Ordering::SeqCst);
}

fn violation(req: usize) -> ! {
    ON.store(false, Ordering::SeqCst);
    let n = CUR_LEN.load(Ordering::SeqCst);
    let mut msg = [0u8; 1200];
    let mut p = 0;
    let mut put = |s: &[u8]| {
        for &b in s {
            if p < msg.len() {
                msg[p] = b;
                p += 1;
            }
        }
    };
    put(b"ALLOCVIOL req=");
    let mut digits = [0u8; 24];
    let mut d = 0;
    let mut x = req;
    loop {
        digits[d] = b'0' + (x % 10) as u8;
        d += 1;
        x /= 10;
        if x == 0 {
            break;
        }
    }
    for i in (0..d).rev() {
        put(&digits[i..i + 1]);
    }
    put(b" input=");
    const H: &[u8; 16] = b"0123456789abcdef";
    for i in 0..n {
        let b = unsafe { *((&raw const CUR) as *const u8).add(i) };
        put(&[H[(b >> 4) as usize], H[(b & 15) as usize]]);
    }
    put(b"\n");
    unsafe {
        libc::write(2, msg.as_ptr() as *const libc::c_void, p);
        libc::_exit(77);
    }
}

unsafe impl GlobalAlloc for Counting {
    unsafe fn alloc(&self, l: Layout) -> *mut u8 {
        if ON.load(Ordering::Relaxed) {
            let used = USED.fetch_add(l.size(), Ordering::Relaxed) + l.size();
            if used > LIMIT.load(Ordering::Relaxed) {
                violation(used);
            }
        }
        unsafe { System.alloc(l) }
    }
    unsafe fn dealloc(&self, p: *mut u8, l: Layout) {
        unsafe { System.dealloc(p, l) }
    }
    unsafe fn alloc_zeroed(&self, l: Layout) -> *mut u8 {
        if ON.load(Ordering::Relaxed) {
            let used = USED.fetch_add(l.size(), Ordering::Relaxed) + l.size();
            if used > LIMIT.load(Ordering::Relaxed) {
                violation(used);
            }
        }
        unsafe { System.alloc_zeroed(l) }
    }
    unsafe fn realloc(&self, p: *mut u8, l: Layout, new: usize) -> *mut u8 {
        if ON.load(Ordering::Relaxed) && new > l.size() {
            let add = new - l.size();
            let used = USED.fetch_add(add, Ordering::Relaxed) + add;
            if used > LIMIT.load(Ordering::Relaxed) {
                violation(used);
            }
        }
        unsafe { System.realloc(p, l, new) }
    }
}
