//! OPEN — exclusive ownership of a database directory (C11) and the creation-time settings gate (C19).

use crate::model::Model;
use crate::ops::{self, Cfg, Op};
use crate::real::{self, Store};
use crate::report::{Violation, WorkerResult};
use crate::sched::{self, Body, Outcome};
use crate::shim::{self, Phase};
use crate::util::{self, Image};
use cassadilia::{Cas, Config, LibError};
use serde_json::{Value, json};
use std::num::NonZeroU64;
use std::path::Path;
use std::sync::{Arc, Mutex};
use std::time::Duration;

type K = String;

fn build_store(cfg: &Cfg, opsq: &[Op], pre_create: bool) -> (Image, Model<K>) {
    let dir = util::fresh_dir("osrc");
    let mut m = Model::<K>::default();
    let conf = Config { pre_create_cas_dirs: pre_create, ..cfg.config() };
    let mut st = Store::<K>::open(&dir, conf).expect("open");
    for op in opsq {
        st.apply(op).expect("op");
        m.apply(op);
    }
    st.close();
    let im = Image::load(&dir);
    util::rm_rf(&dir);
    (im, m)
}

fn histories() -> Vec<Vec<Op>> {
    use crate::keys::*;
    let put = |k, c| Op::Put { k, c, ch: 0 };
    vec![
        vec![],
        vec![put(0, C_X)],
        vec![put(0, C_X), put(1, C_X)],
        vec![put(0, C_X), Op::Checkpoint],
        vec![put(0, C_X), put(0, C_Y)],
        vec![put(0, C_X), Op::Remove { k: 0 }],
        vec![put(0, C_X), Op::Checkpoint, put(1, C_Y)],
        vec![put(0, C_X), put(1, C_Y), put(2, C_X)],
    ]
}

/// Mutating calls of a rejected open other than opening LOCK and mkdirs that changed nothing.
fn forbidden_calls(log: &[(String, bool, i64, i32)]) -> Vec<String> {
    log.iter()
        .filter(|(call, mutating, ret, err)| {
            if !*mutating {
                return false;
            }
            if call.starts_with("open(LOCK") {
                return false;
            }
            if call.starts_with("mkdir(") && *ret != 0 && *err == libc::EEXIST {
                return false;
            }
            // the empty directory skeleton (root, staging/, cas/) has to exist before LOCK can be created or taken;
            // a racer that loses may be the one whose mkdir succeeded. A directory is not a database file and the
            // final tree must still equal that of a solo open (separate oracle).
            if call == "mkdir()" || call == "mkdir(staging)" || call == "mkdir(cas)" {
                return false;
            }
            true
        })
        .map(|(c, _, r, e)| format!("{c} -> {r} (errno {e})"))
        .collect()
}

fn traced<T>(dir: &Path, f: impl FnOnce() -> T) -> (T, Vec<(String, bool, i64, i32)>) {
    let log: Arc<Mutex<Vec<(String, bool, i64, i32)>>> = Arc::new(Mutex::new(Vec::new()));
    let l2 = log.clone();
    shim::arm(
        dir,
        Arc::new(move |ev, ph| {
            if let Phase::Post { ret, err } = ph {
                l2.lock().unwrap().push((ev.show(), ev.mutating, ret, err));
            }
            0
        }),
    );
    shim::participate(true);
    let r = f();
    shim::participate(false);
    shim::disarm();
    let v = log.lock().unwrap().clone();
    (r, v)
}

// ---------------------------------------------------------------- C19

fn settings_json(version: u64, pre: bool, n: u64) -> String {
    format!("{{\"version\":{version},\"dir_tree_is_pre_created\":{pre},\"num_ops_per_wal\":{n}}}")
}

pub fn c19_case(n_create: u64, n_open: u64, version: Option<u64>, hist: &[Op], res: &mut WorkerResult) -> Vec<(String, String)> {
    let mut out = Vec::new();
    let cfg_c = Cfg { n: n_create, async_mode: false };
    let (mut im, m) = build_store(&cfg_c, hist, false);
    if let Some(v) = version {
        im.files.insert("db_settings.json".into(), settings_json(v, false, n_create).into_bytes());
    }
    let dir = util::fresh_dir("c19");
    im.materialize(&dir);
    let before = Image::load(&dir);
    let should_reject = n_create != n_open || version.map_or(false, |v| v != 4);
    let conf = Cfg { n: n_open, async_mode: false }.config();
    let (r, log) = traced(&dir, || real::open_cas::<K>(&dir, &conf));
    res.count("cases", 1);
    let desc = format!("created N={n_create}, history `{}`, stored version {:?}, opened with N={n_open}", ops::show_seq::<K>(hist), version.unwrap_or(4));
    match (&r, should_reject) {
        (Ok(_), true) => out.push(("mismatch-accepted".into(), format!("{desc}: open succeeded"))),
        (Err(e), false) => out.push(("matching-open-rejected".into(), format!("{desc}: {e}"))),
        (Err(e), true) => {
            if e.starts_with("PANIC") {
                out.push(("gate-panic".into(), format!("{desc}: {e}")));
            }
            let after = Image::load(&dir);
            if !before.eq_ignoring_lock(&after) {
                out.push(("rejected-open-modified-files".into(), format!("{desc}: {}", before.diff(&after))));
            }
            let bad = forbidden_calls(&log);
            if !bad.is_empty() {
                out.push(("rejected-open-mutating-calls".into(), format!("{desc}: the rejected open made mutating calls {bad:?}")));
            }
            // a later correct open sees the data unchanged
            if version.map_or(true, |v| v == 4) {
                match real::open_cas::<K>(&dir, &cfg_c.config()) {
                    Err(e) => out.push(("correct-open-after-rejection-failed".into(), format!("{desc}: {e}"))),
                    Ok(cas) => {
                        let f = real::check_all(&cas, &m, &dir, &[0, 1, 2]);
                        if let Some(x) = f.first() {
                            out.push((format!("data-changed-after-rejection/{}", x.oracle), format!("{desc}: {}", x.detail)));
                        }
                    }
                }
            }
        }
        (Ok(cas), false) => {
            let f = real::check_all(cas, &m, &dir, &[0, 1, 2]);
            if let Some(x) = f.first() {
                out.push((format!("matching-open-wrong-data/{}", x.oracle), format!("{desc}: {}", x.detail)));
            }
        }
    }
    drop(r);
    util::rm_rf(&dir);
    out
}

/// Pre-creation choice is remembered and unobservable: same history with/without the tree, and reopening with the opposite flag.
pub fn c19_precreate(res: &mut WorkerResult) -> Vec<(String, String)> {
    use crate::keys::*;
    let mut out = Vec::new();
    let cfg = Cfg { n: 3, async_mode: false };
    let hist = vec![Op::Put { k: 0, c: C_X, ch: 0 }, Op::Put { k: 1, c: C_Y, ch: 0 }, Op::Put { k: 0, c: C_Y, ch: 0 }, Op::Remove { k: 1 }, Op::Put { k: 2, c: C_L, ch: 1 }];
    for created_pre in [false, true] {
        for reopen_pre in [false, true] {
            res.count("cases", 1);
            let dir = util::fresh_dir("pre");
            let mut m = Model::<K>::default();
            let mk = |pre: bool| Config { pre_create_cas_dirs: pre, ..cfg.config() };
            let desc = format!("created with pre_create_cas_dirs={created_pre}, reopened with {reopen_pre}");
            let mut st = match Store::<K>::open(&dir, mk(created_pre)) {
                Ok(s) => s,
                Err(e) => {
                    out.push(("precreate-open-failed".into(), format!("{desc}: {e}")));
                    continue;
                }
            };
            let ndirs = Image::load(&dir.join("cas")).dirs.len();
            if created_pre && ndirs != 65_792 {
                out.push(("precreate-tree".into(), format!("{desc}: {ndirs} directories under cas/, expected 65792")));
            }
            let mut failed = false;
            for (i, op) in hist.iter().enumerate() {
                if i == 2 {
                    st.cfg = mk(reopen_pre);
                    if let Err(e) = st.reopen() {
                        out.push(("precreate-reopen-failed".into(), format!("{desc}: {e}")));
                        failed = true;
                        break;
                    }
                }
                let got = st.apply(op);
                let want = m.apply(op);
                if got != Ok(want) {
                    out.push(("precreate-op".into(), format!("{desc}: op {i} `{}` -> {got:?}, model {want:?}", op.show::<K>())));
                    failed = true;
                    break;
                }
                let mut f = Vec::new();
                real::check_reads(st.cas(), &m, &[0, 1, 2], &mut f);
                if let Some(x) = f.first() {
                    out.push((format!("precreate-reads/{}", x.oracle), format!("{desc}: after op {i}: {}", x.detail)));
                    failed = true;
                    break;
                }
            }
            if !failed {
                // files (not directories) under cas/ are exactly the referenced blobs in both variants
                let files: Vec<String> = Image::load(&dir.join("cas")).files.keys().cloned().collect();
                let want: Vec<String> = m.cas_files().into_iter().collect();
                if files != want {
                    out.push(("precreate-cas-files".into(), format!("{desc}: cas/ files {files:?}, expected {want:?}")));
                }
                let s = std::fs::read_to_string(dir.join("db_settings.json")).unwrap_or_default();
                if !s.contains(&format!("\"dir_tree_is_pre_created\":{created_pre}")) {
                    out.push(("precreate-not-remembered".into(), format!("{desc}: settings file says {s}")));
                }
            }
            st.close();
            // orphan clean-up must not make the creation-time choice observable either: an unreferenced blob alone in its leaf
            // directory is removed by each of the three clean-up calls, then the same content (and one with another leaf) is put
            if !failed && created_pre == reopen_pre {
                for how in 0..3 {
                    res.count("cases", 1);
                    let orphan = crate::keys::content(C_H);
                    let rel = crate::ondisk::path_of_hash(&crate::util::b3(orphan));
                    let p = dir.join("cas").join(&rel);
                    let _ = std::fs::create_dir_all(p.parent().unwrap());
                    std::fs::write(&p, orphan).unwrap();
                    let qdir = util::fresh_dir("preq");
                    let r: Result<(), String> = (|| {
                        let (cas, stats) = real::open_recover::<K>(&dir, &mk(reopen_pre))?;
                        let stats = stats.ok_or("no OrphanStats")?;
                        match how {
                            0 => stats.delete_orphans().map(|_| ()).map_err(|e| util::err_chain(&e))?,
                            1 => stats.quarantine_orphans(&qdir).map(|_| ()).map_err(|e| util::err_chain(&e))?,
                            _ => stats.delete_orphan(&cassadilia::BlobHash(crate::util::b3(orphan))).map(|_| ()).map_err(|e| util::err_chain(&e))?,
                        }
                        if p.exists() {
                            return Err("the orphan is still there after clean-up".into());
                        }
                        real::put_chunks(&cas, "again".to_string(), &[orphan], true).map_err(|e| format!("put of the cleaned-up orphan's content failed: {e}"))?;
                        match cas.get(&"again".to_string()) {
                            Ok(Some(b)) if b.as_ref() == orphan => {}
                            other => return Err(format!("get after the put returned {:?}", other.map(|o| o.map(|b| b.len())).map_err(|e| util::err_chain(&e)))),
                        }
                        cas.remove(&"again".to_string()).map_err(|e| util::err_chain(&e))?;
                        Ok(())
                    })();
                    util::rm_rf(&qdir);
                    if let Err(e) = r {
                        out.push(("precreate-cleanup-then-put".into(), format!("{desc}: orphan planted alone in its leaf directory, clean-up call #{how} (0 delete_orphans, 1 quarantine_orphans, 2 delete_orphan), then the same content put again: {e}")));
                        break;
                    }
                }
            }
            util::rm_rf(&dir);
        }
    }
    out
}

/// First-time initialisation WITH a pre-created tree, really killed (child process, `_exit`) before selected calls: the first
/// and last mkdirs, some in the middle and every call after the mkdir loop. The next open with the same configuration must
/// succeed, the stored "pre-created" flag must be truthful (all 65,536 leaf directories exist if it says so) and puts into
/// several different shard directories must work.
pub fn c19_precreate_crash(part: (u64, u64), res: &mut WorkerResult) -> Vec<(String, String)> {
    use std::process::Command;
    let mut out = Vec::new();
    let exe = std::env::current_exe().unwrap();
    let cfg = Cfg { n: 3, async_mode: false };
    let run_child = |dir: &Path, k: u64| -> (Option<i32>, String) {
        let o = Command::new(&exe).args(["kill-child", dir.to_str().unwrap(), "3", "false", "[]", &k.to_string(), "pre"]).output().expect("spawn");
        (o.status.code(), String::from_utf8_lossy(&o.stdout).into_owned())
    };
    let d0 = util::fresh_dir("prec");
    let (_, so) = run_child(&d0, 0);
    util::rm_rf(&d0);
    let total: u64 = so.lines().find_map(|l| l.strip_prefix("CALLS ")).and_then(|x| x.trim().parse().ok()).unwrap_or(0);
    if total < 65_000 {
        out.push(("precreate-crash-setup".into(), format!("a pre-creating first open made only {total} mutating calls")));
        return out;
    }
    // mkdir(root), mkdir(staging), mkdir(cas), open(LOCK) come first; then 65,792 mkdirs; then the settings file and the rest
    // (create_dir_all makes 66,048 mkdir calls for the tree: 65,536 leaves, 256 parents, 256 first attempts answered ENOENT)
    let mut cuts: Vec<u64> = (1..=6).collect();
    cuts.extend([300, 20_000, 65_000, total - 40, total - 25]);
    cuts.extend((total - 16..=total).collect::<Vec<u64>>());
    cuts.sort();
    cuts.dedup();
    for (ci, k) in cuts.into_iter().enumerate() {
        if k > total || ci as u64 % part.1 != part.0 {
            continue;
        }
        res.count("cases", 1);
        let dir = util::fresh_dir("prec");
        let (code, _) = run_child(&dir, k);
        if code != Some(99) {
            out.push(("precreate-crash-child".into(), format!("child for k={k} exited with {code:?}")));
            util::rm_rf(&dir);
            continue;
        }
        let conf = Config { pre_create_cas_dirs: true, ..cfg.config() };
        let desc = format!("first-time initialisation with pre_create_cas_dirs=true killed before mutating call #{k} of {total}");
        match real::open_cas::<K>(&dir, &conf) {
            Err(e) => out.push(("open-after-killed-precreation-failed".into(), format!("{desc}: {e}"))),
            Ok(cas) => {
                let stored = std::fs::read_to_string(dir.join("db_settings.json")).unwrap_or_default();
                if stored.contains("\"dir_tree_is_pre_created\":true") {
                    let leaves = Image::load(&dir.join("cas")).dirs.iter().filter(|d| d.matches('/').count() == 1).count();
                    if leaves != 65_536 {
                        out.push(("precreated-flag-untruthful".into(), format!("{desc}: settings say the tree is pre-created but only {leaves} of 65536 leaf directories exist")));
                    }
                }
                for (i, c) in [crate::keys::C_X, crate::keys::C_Y, crate::keys::C_L, crate::keys::C_H, crate::keys::C_E, crate::keys::C_Z].iter().enumerate() {
                    let data = crate::keys::content(*c);
                    let key = format!("k{i}");
                    if let Err(e) = real::put_chunks(&cas, key.clone(), &[data], true) {
                        out.push(("put-after-killed-precreation-failed".into(), format!("{desc}: put of content {} failed: {e}", crate::keys::content_name(*c))));
                        break;
                    }
                    if cas.get(&key).ok().flatten().as_deref() != Some(data) {
                        out.push(("read-after-killed-precreation".into(), format!("{desc}: content {} does not read back", crate::keys::content_name(*c))));
                        break;
                    }
                }
            }
        }
        util::rm_rf(&dir);
        if out.len() > 3 {
            break;
        }
    }
    out
}

// ---------------------------------------------------------------- C11

#[derive(Clone)]
enum Won {
    Ok,
    Already,
    Other(String),
}

/// Racing opens from threads under the controlled scheduler (every filesystem call is a scheduling point).
pub fn c11_threads(im: &Image, n: u64, racers: usize, bound: usize, label: &str, res: &mut WorkerResult) -> Vec<(String, String, Value)> {
    c11_threads_n(im, &vec![n; racers], bound, label, res)
}

/// Racing opens; racer i uses num_ops_per_wal = ns[i]. With different values on a fresh directory the value stored at
/// creation must be the winner's (a loser must not have touched the settings), and reopening with it must succeed.
pub fn c11_threads_n(im: &Image, ns: &[u64], bound: usize, label: &str, res: &mut WorkerResult) -> Vec<(String, String, Value)> {
    let racers = ns.len();
    let n = ns[0];
    let mixed = ns.iter().any(|x| *x != n);
    let mut out: Vec<(String, String, Value)> = Vec::new();
    // reference: directory after a solo open + drop
    let solo = {
        let d = util::fresh_dir("solo");
        im.materialize(&d);
        let c = real::open_cas::<K>(&d, &Cfg { n, async_mode: false }.config()).expect("solo open");
        drop(c);
        let i = Image::load(&d);
        util::rm_rf(&d);
        i
    };
    let ns_v: Vec<u64> = ns.to_vec();
    let mut run = |prefix: &[usize]| -> Option<sched::Execution> {
        let dir = util::fresh_dir("race");
        im.materialize(&dir);
        let results: Arc<Mutex<Vec<(usize, Won)>>> = Arc::new(Mutex::new(Vec::new()));
        let handles: Arc<Mutex<Vec<Cas<K>>>> = Arc::new(Mutex::new(Vec::new()));
        let bodies: Vec<Body> = (0..racers)
            .map(|id| {
                let (d, c, r, h) = (dir.clone(), Cfg { n: ns_v[id], async_mode: false }.config(), results.clone(), handles.clone());
                let b: Body = Box::new(move || {
                    let w = match util::catch(|| Cas::<K>::open(&d, c)) {
                        Ok(Ok(cas)) => {
                            h.lock().unwrap().push(cas);
                            Won::Ok
                        }
                        Ok(Err(LibError::AlreadyOpened)) => Won::Already,
                        Ok(Err(e)) => Won::Other(util::err_chain(&e)),
                        Err(p) => Won::Other(format!("PANIC: {p}")),
                    };
                    r.lock().unwrap().push((id, w));
                });
                b
            })
            .collect();
        let exec = sched::run_schedule(&dir, bodies, prefix, sched::visible_all, Box::new(|_, _| {}), Duration::from_secs(60));
        res.count("executions", 1);
        res.count("transitions", exec.points.len() as u64);
        let choices = exec.choices();
        let case = json!({"engine": "open", "kind": "threads", "store": label, "n": n, "ns": ns_v, "racers": racers, "schedule": choices});
        match &exec.outcome {
            Outcome::Completed => {
                let r = results.lock().unwrap().clone();
                let oks = r.iter().filter(|(_, w)| matches!(w, Won::Ok)).count();
                let others: Vec<String> = r.iter().filter_map(|(i, w)| if let Won::Other(e) = w { Some(format!("T{i}: {e}")) } else { None }).collect();
                if oks != 1 || !others.is_empty() {
                    out.push(("racing-opens-outcome".into(), format!("{racers} racing opens on {label}: {oks} succeeded, unexpected errors {others:?} (schedule {choices:?})"), case.clone()));
                }
                let log = sched::EVENT_LOG.lock().unwrap().clone();
                for (id, w) in &r {
                    if matches!(w, Won::Already) {
                        let mine: Vec<(String, bool, i64, i32)> = log.iter().filter(|e| e.0 == *id).map(|e| (e.1.clone(), e.2, e.3, e.4)).collect();
                        let bad = forbidden_calls(&mine);
                        if !bad.is_empty() {
                            out.push(("loser-modified-files".into(), format!("on {label} the losing open T{id} made mutating calls {bad:?} (schedule {choices:?})"), case.clone()));
                        }
                    }
                }
                handles.lock().unwrap().clear();
                let after = Image::load(&dir);
                if mixed && oks == 1 {
                    let winner = r.iter().find(|(_, w)| matches!(w, Won::Ok)).map(|(i, _)| ns_v[*i]).unwrap();
                    let stored = String::from_utf8_lossy(after.files.get("db_settings.json").map(|v| v.as_slice()).unwrap_or(b"")).into_owned();
                    if !stored.contains(&format!("\"num_ops_per_wal\":{winner}}}")) && !stored.contains(&format!("\"num_ops_per_wal\":{winner},")) {
                        out.push(("settings-not-the-winners".into(), format!("racing first opens with num_ops_per_wal {ns_v:?}: the winner used {winner} but the stored settings are {stored} (schedule {choices:?})"), case.clone()));
                    }
                    if let Err(e) = real::open_cas::<K>(&dir, &Cfg { n: winner, async_mode: false }.config()) {
                        out.push(("reopen-with-winners-settings-failed".into(), format!("racing first opens with {ns_v:?}, winner {winner}: {e} (schedule {choices:?})"), case.clone()));
                    }
                }
                if !mixed && oks == 1 && !after.eq_ignoring_lock(&solo) {
                    out.push(("race-left-different-directory".into(), format!("on {label}: directory after the race differs from a solo open: {} (schedule {choices:?})", solo.diff(&after)), case.clone()));
                }
                res.outcomes.insert(format!("{racers} racers on {label}: {oks} ok / {} already-opened", r.len() - oks));
            }
            Outcome::Deadlock { waiting } => out.push(("open-deadlock".into(), format!("{waiting:?}"), case.clone())),
            Outcome::Stuck { thread, label: l } => out.push(("open-hang".into(), format!("T{thread} after {l}"), case.clone())),
            Outcome::Diverged(d) => {
                eprintln!("MACHINERY: racing-open schedule diverged: {d}");
                std::process::exit(2);
            }
        }
        handles.lock().unwrap().clear();
        util::rm_rf(&dir);
        Some(exec)
    };
    let (_, capped, div) = sched::explore(Some(bound), 30_000, &mut run);
    drop(run);
    if capped {
        res.capped = true;
    }
    if let Some(d) = div {
        eprintln!("MACHINERY: nondeterminism in racing opens on {label}: {d}");
        std::process::exit(2);
    }
    res.count("programs", 1);
    res.state(&format!("threads|{label}|{ns_v:?}"));
    // one finding per oracle
    let mut kept: Vec<(String, String, Value)> = Vec::new();
    for f in out {
        if !kept.iter().any(|k| k.0 == f.0) {
            kept.push(f);
        }
    }
    kept
}

/// Child: open the store in `dir`, pausing before the k-th filesystem call under the root (k=0: never) until a line arrives on stdin.
pub fn owner_child(args: &[String]) {
    let dir = std::path::PathBuf::from(&args[0]);
    let n: u64 = args[1].parse().unwrap();
    let k: u64 = args[2].parse().unwrap();
    let cnt = Arc::new(std::sync::atomic::AtomicU64::new(0));
    let c2 = cnt.clone();
    shim::arm(
        &dir,
        Arc::new(move |ev, ph| {
            if let Phase::Pre = ph {
                let i = c2.fetch_add(1, std::sync::atomic::Ordering::SeqCst) + 1;
                if i == k {
                    println!("PAUSED {i} {}", ev.show());
                    let mut s = String::new();
                    let _ = std::io::stdin().read_line(&mut s);
                }
            }
            0
        }),
    );
    shim::participate(true);
    let r = Cas::<K>::open(&dir, Cfg { n, async_mode: false }.config());
    shim::participate(false);
    match &r {
        Ok(_) => println!("OPENED {}", cnt.load(std::sync::atomic::Ordering::SeqCst)),
        Err(LibError::AlreadyOpened) => println!("ALREADY {}", cnt.load(std::sync::atomic::Ordering::SeqCst)),
        Err(e) => println!("ERROR {}", util::err_chain(e)),
    }
    // hold the handle until told to exit (or killed)
    let mut s = String::new();
    let _ = std::io::stdin().read_line(&mut s);
    drop(r);
}

/// Processes: a second process's open at every pause point of the owner; then the owner is killed.
pub fn c11_processes(im: &Image, n: u64, label: &str, res: &mut WorkerResult) -> Vec<(String, String, Value)> {
    use std::io::{BufRead, BufReader, Write};
    use std::process::{Command, Stdio};
    let mut out = Vec::new();
    let exe = std::env::current_exe().unwrap();
    let conf = Cfg { n, async_mode: false }.config();
    let mut k = 1u64;
    let mut total_calls = u64::MAX;
    while k <= total_calls.min(200) {
        let dir = util::fresh_dir("proc");
        im.materialize(&dir);
        let mut child = Command::new(&exe).arg("open-child").arg(&dir).arg(n.to_string()).arg(k.to_string()).stdin(Stdio::piped()).stdout(Stdio::piped()).spawn().expect("spawn owner");
        let mut rd = BufReader::new(child.stdout.take().unwrap());
        let mut line = String::new();
        rd.read_line(&mut line).ok();
        res.count("executions", 1);
        res.count("transitions", 1);
        let case = json!({"engine": "open", "kind": "processes", "store": label, "n": n, "k": k});
        if line.starts_with("PAUSED") {
            let before = Image::load(&dir);
            let second = util::catch(|| Cas::<K>::open(&dir, conf.clone()));
            match second {
                Ok(Err(LibError::AlreadyOpened)) => {
                    let after = Image::load(&dir);
                    if before != after {
                        out.push(("loser-process-modified-files".into(), format!("owner {line:?}: a rejected open from another process changed the directory: {}", before.diff(&after)), case.clone()));
                    }
                    // the owner must finish its open successfully
                    child.stdin.as_mut().unwrap().write_all(b"go\n").ok();
                    let mut l2 = String::new();
                    rd.read_line(&mut l2).ok();
                    if !l2.starts_with("OPENED") {
                        out.push(("owner-failed-after-rejecting-intruder".into(), format!("owner paused at {line:?} then reported {l2:?}"), case.clone()));
                    }
                    res.outcomes.insert("intruder rejected while owner holds the lock".into());
                }
                Ok(Ok(handle)) => {
                    // intruder won before the owner took the lock: the owner must now lose
                    child.stdin.as_mut().unwrap().write_all(b"go\n").ok();
                    let mut l2 = String::new();
                    rd.read_line(&mut l2).ok();
                    if !l2.starts_with("ALREADY") {
                        out.push(("two-live-handles".into(), format!("second process opened the store while the first was paused at {line:?}; the first then reported {l2:?} instead of AlreadyOpened"), case.clone()));
                    }
                    drop(handle);
                    res.outcomes.insert("intruder won before the owner locked; owner rejected".into());
                }
                Ok(Err(e)) => out.push(("intruder-unexpected-error".into(), format!("owner paused at {line:?}: {}", util::err_chain(&e)), case.clone())),
                Err(p) => out.push(("intruder-panic".into(), format!("owner paused at {line:?}: {p}"), case.clone())),
            }
            // kill the owner (it may hold the handle): the next open must succeed
            let _ = child.kill();
            let _ = child.wait();
            match util::catch(|| Cas::<K>::open(&dir, conf.clone())) {
                Ok(Ok(_)) => {}
                Ok(Err(e)) => out.push(("open-after-owner-killed-failed".into(), format!("owner killed after pause {line:?}: {}", util::err_chain(&e)), case.clone())),
                Err(p) => out.push(("open-after-owner-killed-panicked".into(), p, case.clone())),
            }
        } else {
            // the owner made fewer than k calls: done
            if let Some(rest) = line.strip_prefix("OPENED ") {
                total_calls = rest.trim().parse().unwrap_or(0);
            } else {
                out.push(("owner-solo-open-failed".into(), format!("{line:?}"), case.clone()));
                total_calls = 0;
            }
            let _ = child.kill();
            let _ = child.wait();
        }
        util::rm_rf(&dir);
        k += 1;
    }
    res.count("programs", 1);
    res.state(&format!("processes|{label}|{total_calls}"));
    let mut kept: Vec<(String, String, Value)> = Vec::new();
    for f in out {
        if !kept.iter().any(|x| x.0 == f.0) {
            kept.push(f);
        }
    }
    kept
}

/// Every order of dropping {handle, clone, OrphanStats}: a new open succeeds only after the last one is gone.
pub fn c11_drop_orders(res: &mut WorkerResult) -> Vec<(String, String, Value)> {
    let mut out = Vec::new();
    let conf = Cfg { n: 10_000, async_mode: false }.config();
    let perms = [[0, 1, 2], [0, 2, 1], [1, 0, 2], [1, 2, 0], [2, 0, 1], [2, 1, 0]];
    for p in perms {
        res.count("executions", 1);
        res.count("transitions", 3);
        let dir = util::fresh_dir("drop");
        let (cas, stats) = real::open_recover::<K>(&dir, &conf).expect("open");
        let mut slots: Vec<Option<Box<dyn std::any::Any>>> = vec![Some(Box::new(cas.clone())), Some(Box::new(cas)), Some(Box::new(stats))];
        let names = ["handle", "clone", "OrphanStats"];
        for (i, &which) in p.iter().enumerate() {
            slots[which] = None;
            let r = Cas::<K>::open(&dir, conf.clone());
            let last = i == 2;
            let case = json!({"engine": "open", "kind": "drop-orders"});
            match (&r, last) {
                (Ok(_), false) => out.push(("open-while-owner-alive".into(), format!("drop order {:?}: open succeeded while {:?} still hold the store", p.map(|x| names[x]), p[i + 1..].iter().map(|x| names[*x]).collect::<Vec<_>>()), case)),
                (Err(LibError::AlreadyOpened), false) | (Ok(_), true) => {}
                (Err(e), _) => out.push((if last { "open-after-last-drop-failed".into() } else { "wrong-error-while-owned".into() }, format!("drop order {:?} step {i}: {}", p.map(|x| names[x]), util::err_chain(e)), case)),
            }
        }
        util::rm_rf(&dir);
    }
    out
}

/// The application spawns a child process (fork + exec) while the store is open; the child outlives the handle. Once the last
/// owner object is dropped no live handle exists, so the next open must be granted although the child is still running
/// (a descriptor of the store leaking into the child would keep the lock held there).
pub fn c11_child_outlives_handle(res: &mut WorkerResult) -> Vec<(String, String, Value)> {
    let mut out = Vec::new();
    for async_mode in [false, true] {
        for recover in [false, true] {
            res.count("executions", 1);
            res.count("transitions", 4);
            let dir = util::fresh_dir("child");
            let conf = Cfg { n: 10_000, async_mode }.config();
            let case = json!({"engine": "open", "kind": "child-outlives-handle"});
            let (cas, stats) = if recover {
                match real::open_recover::<K>(&dir, &conf) {
                    Ok((c, s)) => (c, s),
                    Err(e) => {
                        out.push(("setup-open-failed".into(), e, case));
                        continue;
                    }
                }
            } else {
                match real::open_cas::<K>(&dir, &conf) {
                    Ok(c) => (c, None),
                    Err(e) => {
                        out.push(("setup-open-failed".into(), e, case));
                        continue;
                    }
                }
            };
            let _ = real::put_chunks(&cas, "a".to_string(), &[b"xx"], true);
            let child = std::process::Command::new("sleep").arg("30").env_remove("LD_PRELOAD").stdin(std::process::Stdio::null()).stdout(std::process::Stdio::null()).stderr(std::process::Stdio::null()).spawn();
            let Ok(mut child) = child else {
                res.notes.push("child-outlives-handle: could not spawn `sleep`; case skipped".into());
                util::rm_rf(&dir);
                continue;
            };
            let _ = real::put_chunks(&cas, "b".to_string(), &[b"yyy"], true);
            drop(stats);
            drop(cas);
            match Cas::<K>::open(&dir, conf.clone()) {
                Ok(c) => drop(c),
                Err(e) => out.push(("reopen-while-child-process-runs".into(), format!("[{} {}] the store was opened, a child process was spawned (fork+exec of `sleep`), every owner object was dropped; the next open failed while the child is still running: {}", if async_mode { "Async" } else { "Sync" }, if recover { "open_with_recover" } else { "open" }, util::err_chain(&e)), case)),
            }
            let _ = child.kill();
            let _ = child.wait();
            util::rm_rf(&dir);
        }
    }
    out
}

/// Async mode: the handle is dropped while background syncs are still pending (delayed by the shim); the directory must be
/// free at once - no live handle exists any more.
pub fn c11_async_reopen(res: &mut WorkerResult) -> Vec<(String, String, Value)> {
    let mut out = Vec::new();
    let dir = util::fresh_dir("asyncdrop");
    let conf = Cfg { n: 10_000, async_mode: true }.config();
    shim::arm(&dir, Arc::new(|_, _| 0));
    shim::BACKGROUND_SYNC_DELAY_MS.store(40, std::sync::atomic::Ordering::Relaxed);
    for round in 0..3 {
        res.count("executions", 1);
        res.count("transitions", 4);
        shim::participate(true);
        let r = (|| -> Result<(), String> {
            let cas = real::open_cas::<K>(&dir, &conf)?;
            real::put_chunks(&cas, format!("k{round}"), &[crate::keys::content(crate::keys::C_L)], true)?;
            real::put_chunks(&cas, format!("j{round}"), &[b"tail"], true)?;
            drop(cas);
            // immediately: every handle is gone, so the open must be granted
            let again = real::open_cas::<K>(&dir, &Cfg { n: 10_000, async_mode: round % 2 == 0 }.config()).map_err(|e| format!("reopen right after dropping the only handle (Async mode, syncs still pending) failed: {e}"))?;
            drop(again);
            Ok(())
        })();
        shim::participate(false);
        if let Err(e) = r {
            out.push(("reopen-after-drop-async".to_string(), e, json!({"engine": "open", "kind": "async-reopen"})));
            break;
        }
        std::thread::sleep(Duration::from_millis(150));
    }
    shim::BACKGROUND_SYNC_DELAY_MS.store(0, std::sync::atomic::Ordering::Relaxed);
    shim::disarm();
    std::thread::sleep(Duration::from_millis(120));
    util::rm_rf(&dir);
    out
}

fn stores() -> Vec<(&'static str, u64, Option<Vec<Op>>)> {
    use crate::keys::*;
    let put = |k, c| Op::Put { k, c, ch: 0 };
    vec![
        ("fresh directory", 10_000, None),
        ("closed populated store (checkpointed)", 10_000, Some(vec![put(0, C_X), put(1, C_X), Op::Checkpoint])),
        ("closed store with an un-replayed WAL tail", 2, Some(vec![put(0, C_X), put(1, C_Y), put(0, C_Y)])),
    ]
}

fn store_image(n: u64, h: &Option<Vec<Op>>) -> Image {
    match h {
        None => Image::default(),
        Some(ops) => build_store(&Cfg { n, async_mode: false }, ops, false).0,
    }
}

pub fn run(tier: &str, slice: (u64, u64), _seed: u64, prop: &str) -> WorkerResult {
    shim::require();
    let mut res = WorkerResult::new("open");
    let mut j = 0u64;
    let mut mine = |j: &mut u64| {
        *j += 1;
        *j % slice.1 == slice.0
    };
    let mut push = |res: &mut WorkerResult, prop: &str, oracle: String, detail: String, replay: Value| {
        let mut v = Violation::new(&[prop], &oracle, detail);
        v.replay = replay;
        res.violate(v);
    };
    if prop == "C19" {
        let ns = [1u64, 2, 3, 4, 10_000];
        let hs = histories();
        for (hi, h) in hs.iter().enumerate() {
            for &a in &ns {
                for &b in &ns {
                    if !mine(&mut j) {
                        continue;
                    }
                    for (o, d) in c19_case(a, b, None, h, &mut res) {
                        push(&mut res, "C19", o, d, json!({"engine": "open", "kind": "c19", "n_create": a, "n_open": b, "version": null, "hist": hi}));
                    }
                    res.state(&format!("{a}|{b}|{hi}"));
                }
            }
            let versions: Vec<u64> = if tier == "quick" { vec![0, 3, 4, 5, u32::MAX as u64] } else { vec![0, 1, 2, 3, 4, 5, 6, 255, 65_536, u32::MAX as u64] };
            for v in versions {
                for (a, b) in [(2u64, 2u64), (10_000, 10_000), (2, 3)] {
                    if !mine(&mut j) {
                        continue;
                    }
                    for (o, d) in c19_case(a, b, Some(v), h, &mut res) {
                        push(&mut res, "C19", o, d, json!({"engine": "open", "kind": "c19", "n_create": a, "n_open": b, "version": v, "hist": hi}));
                    }
                    res.state(&format!("v{v}|{a}|{b}|{hi}"));
                }
            }
        }
        if mine(&mut j) {
            // two first opens racing with different num_ops_per_wal: the stored creation-time value must be the winner's
            for (o, d, c) in c11_threads_n(&Image::default(), &[2, 3], 2, "fresh directory", &mut res) {
                push(&mut res, "C19", o, d, c);
            }
        }
        // every worker takes its share of the kill points
        for (o, d) in c19_precreate_crash(slice, &mut res) {
            push(&mut res, "C19", o, d, json!({"engine": "open", "kind": "c19-precreate-crash"}));
        }
        if mine(&mut j) {
            for (o, d) in c19_precreate(&mut res) {
                push(&mut res, "C19", o, d, json!({"engine": "open", "kind": "c19-precreate"}));
            }
        }
        if slice.0 == 0 {
            res.completed.push(format!("C19: all 25 pairs (N_create, N_open) over {{1,2,3,4,10000}} x {} histories (incl. un-replayed WAL tails); stored versions x 3 N pairs x histories; pre-created vs lazy tree x reopen flag (4 combinations); first-time initialisation with a pre-created tree really killed before ~28 selected calls (first/last/middle mkdirs, every call after the loop); two first opens racing with different num_ops_per_wal", hs.len()));
        }
    } else {
        for (label, n, h) in stores() {
            let im = store_image(n, &h);
            if mine(&mut j) {
                for (o, d, c) in c11_threads(&im, n, 2, if tier == "quick" { 2 } else { 3 }, label, &mut res) {
                    push(&mut res, "C11", o, d, c);
                }
            }
            if mine(&mut j) {
                for (o, d, c) in c11_threads(&im, n, 3, if tier == "quick" { 1 } else { 2 }, label, &mut res) {
                    push(&mut res, "C11", o, d, c);
                }
            }
            if h.is_none() && mine(&mut j) {
                for (o, d, c) in c11_threads_n(&im, &[2, 3], if tier == "quick" { 2 } else { 3 }, label, &mut res) {
                    push(&mut res, "C11", o, d, c);
                }
            }
            if mine(&mut j) {
                for (o, d, c) in c11_processes(&im, n, label, &mut res) {
                    push(&mut res, "C11", o, d, c);
                }
            }
        }
        if mine(&mut j) {
            for (o, d, c) in c11_drop_orders(&mut res) {
                push(&mut res, "C11", o, d, c);
            }
        }
        if mine(&mut j) {
            for (o, d, c) in c11_async_reopen(&mut res) {
                push(&mut res, "C11", o, d, c);
            }
        }
        if mine(&mut j) {
            for (o, d, c) in c11_child_outlives_handle(&mut res) {
                push(&mut res, "C11", o, d, c);
            }
        }
        if slice.0 == 0 {
            res.completed.push(format!("C11: 2 racing opens (<= {} preemptions) and 3 racing opens (<= {}) from threads with every filesystem call as a scheduling point, on 3 kinds of store; a second process's open at every filesystem call of the owner's open (real flock across processes), then owner killed; all 6 drop orders of handle/clone/OrphanStats; Async handle dropped with background syncs still pending (delayed by the shim), then reopened at once; a child process spawned while the store is open and still running after the last owner object is dropped (Sync/Async x open/open_with_recover): reopen granted", if tier == "quick" { 2 } else { 3 }, if tier == "quick" { 1 } else { 2 }));
        }
    }
    if res.samples.is_empty() {
        res.sample(json!({"prop": prop, "stores": stores().iter().map(|s| s.0).collect::<Vec<_>>()}));
    }
    res
}

pub fn replay(case: &Value) -> Vec<Violation> {
    shim::require();
    let mut res = WorkerResult::new("open");
    let kind = case["kind"].as_str().unwrap_or("");
    let mut out = Vec::new();
    match kind {
        "c19" => {
            let h = &histories()[case["hist"].as_u64().unwrap() as usize];
            for (o, d) in c19_case(case["n_create"].as_u64().unwrap(), case["n_open"].as_u64().unwrap(), case["version"].as_u64(), h, &mut res) {
                out.push(Violation::new(&["C19"], &o, d));
            }
        }
        "c19-precreate-crash" => {
            for (o, d) in c19_precreate_crash((0, 1), &mut res) {
                out.push(Violation::new(&["C19"], &o, d));
            }
        }
        "c19-precreate" => {
            for (o, d) in c19_precreate(&mut res) {
                out.push(Violation::new(&["C19"], &o, d));
            }
        }
        "async-reopen" => {
            for (o, d, _) in c11_async_reopen(&mut res) {
                out.push(Violation::new(&["C11"], &o, d));
            }
        }
        "child-outlives-handle" => {
            for (o, d, _) in c11_child_outlives_handle(&mut res) {
                out.push(Violation::new(&["C11"], &o, d));
            }
        }
        "drop-orders" => {
            for (o, d, _) in c11_drop_orders(&mut res) {
                out.push(Violation::new(&["C11"], &o, d));
            }
        }
        "threads" | "processes" => {
            let label = case["store"].as_str().unwrap();
            let (_, n, h) = stores().into_iter().find(|s| s.0 == label).expect("store");
            let im = store_image(n, &h);
            let found = if kind == "threads" {
                // re-explore the (small) program; the recorded schedule is among the explored ones
                let ns: Vec<u64> = serde_json::from_value(case["ns"].clone()).unwrap_or_else(|_| vec![n; case["racers"].as_u64().unwrap() as usize]);
                c11_threads_n(&im, &ns, 3, label, &mut res)
            } else {
                c11_processes(&im, n, label, &mut res)
            };
            for (o, d, _) in found {
                out.push(Violation::new(&["C11"], &o, d));
            }
        }
        _ => {}
    }
    out
}
