//! FAULT — one injected failure (EIO, no side effect) at every mutating/sync filesystem call of every
//! bounded history, followed by the rest of the history and a clean reopen. Serves C14.

use crate::keys::{self, HKey};
use crate::ops::{self, Cfg, Op};
use crate::real::{self, Store};
use crate::report::{Violation, WorkerResult};
use crate::shim::{self, Phase};
use crate::util::{self, show};
use serde_json::{Value, json};
use std::collections::BTreeMap;
use std::path::Path;
use std::sync::atomic::{AtomicU64, Ordering};
use std::sync::{Arc, Mutex};

type Val = Option<Vec<u8>>;

/// Per-key set of values the statement allows (absent key in the map = certainly absent).
#[derive(Clone, Debug)]
pub struct UModel<K: HKey> {
    pub poss: BTreeMap<K, Vec<Val>>,
}

impl<K: HKey> Default for UModel<K> {
    fn default() -> Self {
        UModel { poss: BTreeMap::new() }
    }
}

impl<K: HKey> UModel<K> {
    fn get(&self, k: &K) -> Vec<Val> {
        self.poss.get(k).cloned().unwrap_or_else(|| vec![None])
    }
    fn set(&mut self, k: K, v: Vec<Val>) {
        if v.len() == 1 && v[0].is_none() {
            self.poss.remove(&k);
        } else {
            self.poss.insert(k, v);
        }
    }
    fn add(&mut self, k: K, v: Val) {
        let mut cur = self.get(&k);
        if !cur.contains(&v) {
            cur.push(v);
        }
        self.set(k, cur);
    }
    fn may_be_present(&self, k: &K) -> bool {
        self.get(k).iter().any(|v| v.is_some())
    }
    fn surely_present(&self, k: &K) -> bool {
        self.get(k).iter().all(|v| v.is_some())
    }
    fn keys_in<'a>(&'a self, lo: ops::B, hi: ops::B) -> Vec<K> {
        self.poss.range((lo.to_bound::<K>(), hi.to_bound::<K>())).map(|(k, _)| k.clone()).collect()
    }

    /// Account for `op` having returned `res` (Ok(return value) / Err). Returns an inconsistency, if any.
    pub fn apply(&mut self, op: &Op, res: &Result<crate::model::Ret, String>) -> Option<String> {
        use crate::model::Ret;
        match (*op, res) {
            (Op::Put { k, c, .. }, Ok(_)) => {
                self.set(K::make(k).unwrap(), vec![Some(keys::content(c).to_vec())]);
                None
            }
            (Op::Put { k, c, .. }, Err(_)) => {
                self.add(K::make(k).unwrap(), Some(keys::content(c).to_vec()));
                None
            }
            (Op::Abort { .. }, _) | (Op::Checkpoint, _) | (Op::Reopen, _) => None,
            (Op::Remove { k }, Ok(Ret::Bool(true))) => {
                let key = K::make(k).unwrap();
                let bad = !self.may_be_present(&key);
                self.set(key, vec![None]);
                bad.then(|| "remove returned true for a key that cannot be present".to_string())
            }
            (Op::Remove { k }, Ok(_)) => {
                // logs nothing: a stale record of a failed put may still surface after reopen ("new")
                let key = K::make(k).unwrap();
                self.surely_present(&key).then(|| "remove returned false for a key that must be present".to_string())
            }
            (Op::Remove { k }, Err(_)) => {
                self.add(K::make(k).unwrap(), None);
                None
            }
            (Op::RemoveRange { lo, hi }, r) => {
                let ks = self.keys_in(lo, hi);
                let sure = ks.iter().filter(|k| self.surely_present(k)).count();
                let may = ks.iter().filter(|k| self.may_be_present(k)).count();
                for k in ks {
                    if r.is_ok() && self.surely_present(&k) {
                        self.set(k, vec![None]);
                    } else {
                        self.add(k, None);
                    }
                }
                match r {
                    Ok(Ret::Count(n)) if *n < sure || *n > may => Some(format!("remove_range returned {n}, but between {sure} and {may} keys can be present in the range")),
                    _ => None,
                }
            }
        }
    }
}

fn check_reads<K: HKey>(cas: &cassadilia::Cas<K>, um: &UModel<K>, universe: &[u8]) -> Option<(String, String)> {
    use std::io::Read;
    for &ki in universe {
        let Some(key) = K::make(ki) else { continue };
        let allowed = um.get(&key);
        let lab = K::label(ki);
        let certain = allowed.len() == 1;
        let tag = if certain { "other-key" } else { "failed-op-key" };
        match util::catch(|| cas.get(&key)) {
            Err(p) => return Some((format!("read-panic/{tag}"), format!("get({lab}) panicked: {p}"))),
            Ok(Err(e)) => return Some((format!("read-failed/{tag}"), format!("get({lab}) failed: {}", util::err_chain(&e)))),
            Ok(Ok(got)) => {
                let g: Val = got.map(|b| b.to_vec());
                if !allowed.contains(&g) {
                    return Some((format!("wrong-value/{tag}"), format!("get({lab}) = {:?}, allowed {:?}", g.as_deref().map(show), allowed.iter().map(|v| v.as_deref().map(show)).collect::<Vec<_>>())));
                }
                // size and streaming must agree with the same value
                if let Ok(Ok(sz)) = util::catch(|| cas.get_size(&key)) {
                    if sz != g.as_ref().map(|v| v.len() as u64) && !allowed.iter().any(|v| v.as_ref().map(|x| x.len() as u64) == sz) {
                        return Some((format!("wrong-size/{tag}"), format!("get_size({lab}) = {sz:?}")));
                    }
                }
                match util::catch(|| cas.get_reader(&key)) {
                    Ok(Ok(Some(mut r))) => {
                        let mut buf = Vec::new();
                        if r.read_to_end(&mut buf).is_err() || !allowed.contains(&Some(buf.clone())) {
                            return Some((format!("wrong-stream/{tag}"), format!("get_reader({lab}) streamed {}", show(&buf))));
                        }
                    }
                    Ok(Ok(None)) => {
                        if !allowed.contains(&None) {
                            return Some((format!("wrong-value/{tag}"), format!("get_reader({lab}) = None for a key that must be present")));
                        }
                    }
                    Ok(Err(e)) => return Some((format!("read-failed/{tag}"), format!("get_reader({lab}) failed: {}", util::err_chain(&e)))),
                    Err(p) => return Some((format!("read-panic/{tag}"), format!("get_reader({lab}) panicked: {p}"))),
                }
            }
        }
    }
    None
}

pub struct FaultRun {
    /// number of countable calls made by the history
    pub calls: u64,
    /// (site, call text, op in flight) of the faulted call
    pub faulted: Option<(String, String, String)>,
    pub finding: Option<(String, String)>,
    pub op_errors: Vec<String>,
    /// number of faults that actually fired
    pub nfaults: u64,
    /// both faults fired inside the same API call (outside C14's statement: one failing call per operation)
    pub same_call: bool,
}

fn err_class(e: &str) -> String {
    let head: String = e.chars().take_while(|c| *c != ':' && *c != '(' && *c != '{' && *c != '<').collect();
    head.trim().split_whitespace().take(4).collect::<Vec<_>>().join("-")
}

/// Run prefix (clean) + history with the k-th and the k2-th countable call failing (0: no such fault), then reopen cleanly.
pub fn run_one<K: HKey>(dir: &Path, cfg: &Cfg, prefix: &[Op], opsq: &[Op], k: u64, k2: u64, universe: &[u8], verbose: bool) -> FaultRun {
    use crate::model::Ret;
    let mut um = UModel::<K>::default();
    if !prefix.is_empty() {
        let mut st = Store::<K>::open(dir, cfg.config()).expect("prefix open");
        for op in prefix {
            let r = st.apply(op);
            assert!(r.is_ok(), "prefix op failed");
            um.apply(op, &r);
        }
        st.close();
    }
    let counter = Arc::new(AtomicU64::new(0));
    let faulted: Arc<Mutex<Option<(String, String)>>> = Arc::new(Mutex::new(None));
    let nfaults = Arc::new(AtomicU64::new(0));
    // ordinal of the API call in progress; the ordinals of the calls the faults fired in
    let cur = Arc::new(AtomicU64::new(0));
    let fired_in: Arc<Mutex<Vec<u64>>> = Arc::new(Mutex::new(vec![]));
    let (c2, f2, n2, cur2, fi2) = (counter.clone(), faulted.clone(), nfaults.clone(), cur.clone(), fired_in.clone());
    shim::arm(
        dir,
        Arc::new(move |ev, ph| {
            if let Phase::Pre = ph {
                if ev.mutating {
                    let n = c2.fetch_add(1, Ordering::SeqCst) + 1;
                    if n == k || n == k2 {
                        let mut f = f2.lock().unwrap();
                        *f = Some(match f.take() {
                            None => (ev.site(), ev.show()),
                            Some((s0, c0)) => (format!("{s0}+{}", ev.site()), format!("{c0} and #{n} {}", ev.show())),
                        });
                        n2.fetch_add(1, Ordering::SeqCst);
                        fi2.lock().unwrap().push(cur2.load(Ordering::SeqCst));
                        return libc::EIO;
                    }
                }
            }
            0
        }),
    );
    let mut run = FaultRun { calls: 0, faulted: None, finding: None, op_errors: vec![], nfaults: 0, same_call: false };
    let mut inflight_at_fault = String::new();
    let body = |run: &mut FaultRun, um: &mut UModel<K>, inflight_at_fault: &mut String| -> Option<(String, String)> {
        shim::participate(true);
        let opened = Store::<K>::open(dir, cfg.config());
        shim::participate(false);
        let was_faulted = |f: &Arc<Mutex<Option<(String, String)>>>| f.lock().unwrap().is_some();
        let fired = || nfaults.load(Ordering::SeqCst);
        let next_call = || cur.fetch_add(1, Ordering::SeqCst);
        let mut st = match opened {
            Ok(s) => s,
            Err(e) => {
                if e.starts_with("PANIC") {
                    return Some(("panic/open".into(), format!("initial open panicked: {e}")));
                }
                if !was_faulted(&faulted) {
                    return Some(("open-failed-without-fault".into(), format!("initial open failed: {e}")));
                }
                *inflight_at_fault = "open".into();
                run.op_errors.push(format!("open: {e}"));
                // a faulted open may fail; a retry that is not itself faulted must succeed
                let mut last = e;
                loop {
                    let f0 = fired();
                    next_call();
                    shim::participate(true);
                    let o = Store::<K>::open(dir, cfg.config());
                    shim::participate(false);
                    match o {
                        Ok(s) => break s,
                        Err(e2) if fired() > f0 && !e2.starts_with("PANIC") => {
                            run.op_errors.push(format!("open: {e2}"));
                            last = e2;
                        }
                        Err(e2) => return Some((format!("open-retry-failed/{}", err_class(&e2)), format!("open failed ({last}); the retry failed too: {e2}"))),
                    }
                }
            }
        };
        if was_faulted(&faulted) && inflight_at_fault.is_empty() {
            *inflight_at_fault = "open".into();
        }
        for (i, op) in opsq.iter().enumerate() {
            let before = was_faulted(&faulted);
            let f_before = fired();
            next_call();
            shim::participate(true);
            let r = st.apply(op);
            shim::participate(false);
            let now = was_faulted(&faulted);
            if fired() > f_before {
                *inflight_at_fault = crate::crash::op_class(op).into();
            }
            if verbose {
                println!("  op {i} `{}` -> {:?}{}", op.show::<K>(), r, if fired() > f_before { "   <== fault injected here" } else { "" });
            }
            if let Err(e) = &r {
                if e.starts_with("PANIC") {
                    return Some((format!("panic/{}", crate::crash::op_class(op)), format!("op {i} `{}` panicked: {e}", op.show::<K>())));
                }
                if !now {
                    return Some(("op-failed-before-any-fault".into(), format!("op {i} `{}` failed: {e}", op.show::<K>())));
                }
                run.op_errors.push(format!("{}: {}", op.show::<K>(), e));
                if matches!(op, Op::Reopen) {
                    if fired() == f_before {
                        // a reopen that was not itself faulted must succeed
                        return Some((format!("reopen-failed/{}", err_class(e)), format!("op {i} reopen failed after an earlier fault: {e}")));
                    }
                    loop {
                        let f0 = fired();
                        next_call();
                        shim::participate(true);
                        let o = st.reopen();
                        shim::participate(false);
                        match o {
                            Ok(()) => break,
                            Err(e2) if fired() > f0 && !e2.starts_with("PANIC") => run.op_errors.push(format!("reopen: {e2}")),
                            Err(e2) => return Some((format!("reopen-retry-failed/{}", err_class(&e2)), format!("faulted reopen failed ({e}); the retry failed too: {e2}"))),
                        }
                    }
                }
            }
            let r2: Result<Ret, String> = r;
            if let Some(inc) = um.apply(op, &r2) {
                return Some(("inconsistent-return".into(), format!("op {i} `{}`: {inc}", op.show::<K>())));
            }
            if st.cas.is_none() {
                return Some(("store-unavailable".into(), format!("no handle after op {i}")));
            }
            if let Some((o, d)) = check_reads(st.cas(), um, universe) {
                return Some((o, format!("after op {i} `{}`: {d}", op.show::<K>())));
            }
        }
        next_call();
        shim::participate(true);
        st.close();
        shim::participate(false);
        None
    };
    let finding = body(&mut run, &mut um, &mut inflight_at_fault);
    shim::participate(false);
    shim::disarm();
    run.calls = counter.load(Ordering::SeqCst);
    run.nfaults = nfaults.load(Ordering::SeqCst);
    {
        let fi = fired_in.lock().unwrap();
        run.same_call = fi.len() == 2 && fi[0] == fi[1];
    }
    run.faulted = faulted.lock().unwrap().clone().map(|(s, c)| (s, c, inflight_at_fault.clone()));
    run.finding = finding;
    if run.finding.is_none() {
        // final clean reopen with the default configuration
        match real::open_cas::<K>(dir, &cfg.config()) {
            Err(e) => run.finding = Some((format!("final-reopen-failed/{}", err_class(&e)), format!("reopen after the history failed: {e}"))),
            Ok(cas) => {
                if let Some((o, d)) = check_reads(&cas, &um, universe) {
                    run.finding = Some((format!("{o}@final-reopen"), format!("after the final reopen: {d}")));
                }
            }
        }
    }
    run
}

pub fn case_json<K: HKey>(cfg: &Cfg, prefix: &[Op], opsq: &[Op], k: u64, k2: u64) -> Value {
    json!({"engine": "fault", "key": K::NAME, "cfg": cfg, "prefix": prefix, "ops": opsq, "k": k, "k2": k2,
           "text": format!("prefix [{}] history [{}] fail call #{k}{}", ops::show_seq::<K>(prefix), ops::show_seq::<K>(opsq), if k2 > 0 { format!(" and call #{k2}") } else { String::new() })})
}

/// `double`: after the single-fault sweep, every pair of faults k < k2 (k2 counted in the run that already has fault k) as well.
pub fn run_case<K: HKey>(cfg: &Cfg, prefix: &[Op], opsq: &[Op], only_k: Option<(u64, u64)>, double: bool, res: &mut WorkerResult, verbose: bool) -> Vec<Violation> {
    let mut all: Vec<Op> = prefix.to_vec();
    all.extend_from_slice(opsq);
    let universe = crate::seq::universe_of(&all);
    let mut vs = Vec::new();
    let dir = util::fresh_dir("flt");
    let base = run_one::<K>(&dir, cfg, prefix, opsq, 0, 0, &universe, false);
    util::rm_rf(&dir);
    res.count("histories", 1);
    if let Some((o, d)) = &base.finding {
        let mut v = Violation::new(&["C14"], &format!("nofault/{o}"), format!("[{} {}] `{}` without any fault: {d}", K::NAME, cfg.show(), ops::show_seq::<K>(opsq)));
        v.replay = case_json::<K>(cfg, prefix, opsq, 0, 0);
        vs.push(v);
        return vs;
    }
    let mut work: std::collections::VecDeque<(u64, u64)> = match only_k {
        Some(kk) => [kk].into(),
        None => (1..=base.calls).map(|k| (k, 0)).collect(),
    };
    while let Some((k, k2)) = work.pop_front() {
        let dir = util::fresh_dir("flt");
        let run = run_one::<K>(&dir, cfg, prefix, opsq, k, k2, &universe, verbose);
        util::rm_rf(&dir);
        if k2 > 0 && run.nfaults < 2 {
            // the run with fault k makes fewer than k2 countable calls: all pairs (k, *) are done
            continue;
        }
        if double && only_k.is_none() && vs.len() < 4 {
            work.push_back((k, if k2 == 0 { k + 1 } else { k2 + 1 }));
        }
        if run.same_call {
            // two failing calls inside one operation are outside the property's statement; the run is not judged
            res.count("pairs_within_one_call_not_judged", 1);
            continue;
        }
        res.count(if k2 > 0 { "double_fault_runs" } else { "runs" }, 1);
        res.count("transitions", opsq.len() as u64 + 2);
        let (site, call, inflight) = run.faulted.clone().unwrap_or(("none".into(), "none".into(), "none".into()));
        res.state(&format!("{site}|{inflight}|{}", run.op_errors.len()));
        res.outcomes.insert(format!("fault@{site} during {inflight}: {}", if run.finding.is_some() { "VIOLATION" } else if run.op_errors.is_empty() { "absorbed (no op failed)" } else { "op(s) failed, contained" }));
        if let Some((o, d)) = run.finding {
            let mut v = Violation::new(
                &["C14"],
                &o,
                format!("[{} {}] prefix `{}` history `{}` with call #{k}{} {call} failing (EIO) during {inflight}: {d}; failed ops: {:?}",
                    K::NAME, cfg.show(), ops::show_seq::<K>(prefix), ops::show_seq::<K>(opsq), if k2 > 0 { format!(" and #{k2}") } else { String::new() }, run.op_errors),
            );
            v.sig = format!("{o}|fault={site}|during={inflight}");
            v.replay = case_json::<K>(cfg, prefix, opsq, k, k2);
            vs.push(v);
        }
    }
    vs
}

fn two_fault_alphabet() -> Vec<Op> {
    use crate::keys::*;
    vec![Op::Put { k: 0, c: C_X, ch: 0 }, Op::Put { k: 1, c: C_Y, ch: 0 }, Op::Remove { k: 0 }, Op::Reopen]
}

pub fn plan(tier: &str) -> Vec<crate::crash::SubRun> {
    use crate::crash::SubRun;
    use crate::keys::*;
    let c = |n, a| Cfg { n, async_mode: a };
    let shared = vec![Op::Put { k: 0, c: C_X, ch: 0 }, Op::Put { k: 1, c: C_X, ch: 0 }];
    let mut v = Vec::new();
    if tier == "quick" {
        for n in [1, 2, 10_000] {
            v.push(SubRun { cfg: c(n, false), prefix: vec![], alphabet: ops::alphabet("crash"), depth: 3, nest: 0, label: "fresh" });
        }
        v.push(SubRun { cfg: c(10_000, false), prefix: shared.clone(), alphabet: ops::alphabet("crash"), depth: 2, nest: 0, label: "shared-prefix" });
        v.push(SubRun { cfg: c(2, true), prefix: vec![], alphabet: ops::alphabet("crash"), depth: 2, nest: 0, label: "async" });
        v.push(SubRun { cfg: c(10_000, false), prefix: vec![], alphabet: crate::crash::big_alphabet(), depth: 2, nest: 0, label: "big records/blobs" });
        // a failed rollover checkpoint leaves two un-checkpointed segments; with 9 / 19 earlier ops their ids are 9 and 10
        v.push(SubRun { cfg: c(1, false), prefix: crate::crash::long_prefix(9), alphabet: ops::alphabet("crash"), depth: 3, nest: 0, label: "segment ids 9 -> 10 (N=1)" });
        v.push(SubRun { cfg: c(2, false), prefix: crate::crash::long_prefix(19), alphabet: ops::alphabet("crash"), depth: 3, nest: 0, label: "segment ids 9 -> 10 (N=2)" });
        // deviation bound 2: every ordered pair of failing calls
        v.push(SubRun { cfg: c(10_000, false), prefix: vec![], alphabet: two_fault_alphabet(), depth: 3, nest: 0, label: "two faults" });
        v.push(SubRun { cfg: c(2, false), prefix: vec![], alphabet: two_fault_alphabet(), depth: 3, nest: 0, label: "two faults" });
    } else {
        for n in [1u64, 2, 3] {
            v.push(SubRun { cfg: c(n, false), prefix: crate::crash::long_prefix(10 * n as usize - 1), alphabet: ops::alphabet("crash"), depth: 4, nest: 0, label: "segment ids 9 -> 10" });
            v.push(SubRun { cfg: c(n, false), prefix: crate::crash::long_prefix(100 * n as usize - 1), alphabet: ops::alphabet("crash"), depth: 3, nest: 0, label: "segment ids 99 -> 100" });
        }
        for n in [1, 2, 3, 10_000] {
            v.push(SubRun { cfg: c(n, false), prefix: vec![], alphabet: ops::alphabet("crash"), depth: 4, nest: 0, label: "fresh d4" });
            v.push(SubRun { cfg: c(n, true), prefix: vec![], alphabet: ops::alphabet("crash"), depth: 3, nest: 0, label: "async d3" });
            v.push(SubRun { cfg: c(n, false), prefix: shared.clone(), alphabet: ops::alphabet("crash"), depth: 3, nest: 0, label: "shared-prefix d3" });
            v.push(SubRun { cfg: c(n, false), prefix: vec![], alphabet: crate::crash::big_alphabet(), depth: 3, nest: 0, label: "big records/blobs d3" });
        }
        for n in [1, 2, 10_000] {
            v.push(SubRun { cfg: c(n, false), prefix: vec![], alphabet: ops::alphabet("crash"), depth: 3, nest: 0, label: "two faults d3" });
            v.push(SubRun { cfg: c(n, false), prefix: vec![], alphabet: two_fault_alphabet(), depth: 4, nest: 0, label: "two faults d4" });
        }
        v.push(SubRun { cfg: c(10_000, false), prefix: vec![], alphabet: ops::alphabet("crash"), depth: 5, nest: 0, label: "fresh d5" });
        v.push(SubRun { cfg: c(2, false), prefix: vec![], alphabet: ops::alphabet("crash"), depth: 5, nest: 0, label: "fresh d5" });
    }
    v
}

pub fn run(tier: &str, slice: (u64, u64), seed: u64) -> WorkerResult {
    shim::require();
    let mut res = WorkerResult::new("fault");
    let mut j = 0u64;
    for sr in plan(tier) {
        let total = ops::seq_count(&sr.alphabet, sr.depth);
        for i in 0..total {
            j += 1;
            if j % slice.1 != slice.0 {
                continue;
            }
            let idx = (i + seed) % total;
            let opsq = ops::seq_of(&sr.alphabet, sr.depth, idx);
            let double = sr.label.starts_with("two faults");
            let vs = run_case::<String>(&sr.cfg, &sr.prefix, &opsq, None, double, &mut res, false);
            if res.samples.len() < 2 && idx % 97 == 55 {
                res.sample(case_json::<String>(&sr.cfg, &sr.prefix, &opsq, 7, 0));
            }
            for v in vs {
                res.violate(v);
            }
        }
        if slice.0 == 0 {
            res.completed.push(format!(
                "{} {}: all {} histories of depth {} over {} symbols, prefix [{}], {} incl. those of open and close",
                sr.label, sr.cfg.show(), total, sr.depth, sr.alphabet.len(), ops::show_seq::<String>(&sr.prefix),
                if sr.label.starts_with("two faults") { "one EIO at every mutating/sync call and then EIO at every pair of calls (second call counted in the run that has the first fault)" } else { "one EIO at every mutating/sync call" }
            ));
        }
    }
    res
}

pub fn replay(case: &Value) -> Vec<Violation> {
    shim::require();
    let cfg: Cfg = serde_json::from_value(case["cfg"].clone()).expect("cfg");
    let prefix: Vec<Op> = serde_json::from_value(case["prefix"].clone()).expect("prefix");
    let opsq: Vec<Op> = serde_json::from_value(case["ops"].clone()).expect("ops");
    let k = case["k"].as_u64().map(|k| (k, case["k2"].as_u64().unwrap_or(0)));
    let mut res = WorkerResult::new("fault");
    run_case::<String>(&cfg, &prefix, &opsq, k, false, &mut res, true)
}
