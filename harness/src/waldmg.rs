//! WALDMG — every truncation offset and every single-byte change of checksum/payload of every
//! un-checkpointed log record of cleanly closed stores produced by bounded histories. Serves C10.

use crate::keys::HKey;
use crate::ondisk::{self, DOp, HDR};
use crate::ops::{self, Cfg, Op};
use crate::real::{self, Store};
use crate::report::{Violation, WorkerResult};
use crate::util::{self, Image, hex};
use cassadilia::Config;
use serde::{Deserialize, Serialize};
use serde_json::{Value, json};
use std::collections::BTreeMap;

type KMap = BTreeMap<Vec<u8>, ([u8; 32], u64)>;

#[derive(Clone, Debug, Serialize, Deserialize, PartialEq)]
pub enum Damage {
    /// cut segment `seg` to `len` bytes and drop all later segments
    Truncate { seg: u64, len: usize },
    /// byte at `off` of segment `seg` becomes `val`
    Set { seg: u64, off: usize, val: u8 },
}

#[derive(Clone, Debug)]
pub struct Tail {
    /// (segment id, record offset, record total length, version)
    pub recs: Vec<(u64, usize, usize, u64)>,
    /// state after snapshot + first i tail records, i in 0..=recs.len()
    pub states: Vec<KMap>,
}

pub fn locate_tail(im: &Image, n: u64) -> Result<Tail, String> {
    let disk = ondisk::decode_disk(im, n)?;
    let snap = disk.snapshot_version();
    let mut m: KMap = BTreeMap::new();
    if let Some(ix) = &disk.index {
        for (k, h, s) in &ix.entries {
            m.insert(k.clone(), (*h, *s));
        }
    }
    let mut recs = Vec::new();
    let mut states = vec![m.clone()];
    for seg in &disk.segments {
        for r in &seg.records {
            if r.version <= snap {
                continue;
            }
            match ondisk::decode_op(&r.payload)? {
                DOp::Put { key, hash, size } => {
                    m.insert(key, (hash, size));
                }
                DOp::Remove { keys } => {
                    for k in keys {
                        m.remove(&k);
                    }
                }
            }
            recs.push((seg.id, r.offset, HDR + r.payload.len(), r.version));
            states.push(m.clone());
        }
    }
    Ok(Tail { recs, states })
}

pub fn apply_damage(im: &Image, d: &Damage) -> Image {
    let mut out = im.clone();
    match *d {
        Damage::Truncate { seg, len } => {
            let name = format!("{seg}_index.wal");
            if let Some(b) = out.files.get_mut(&name) {
                b.truncate(len);
            }
            let later: Vec<String> = out.files.keys().filter(|k| ondisk::segment_id(k).map_or(false, |id| id > seg)).cloned().collect();
            for k in later {
                out.files.remove(&k);
            }
        }
        Damage::Set { seg, off, val } => {
            let name = format!("{seg}_index.wal");
            if let Some(b) = out.files.get_mut(&name) {
                b[off] = val;
            }
        }
    }
    out
}

/// Number of leading tail records that are entirely undamaged.
fn intact_prefix(t: &Tail, d: &Damage) -> usize {
    match *d {
        Damage::Truncate { seg, len } => t.recs.iter().take_while(|(s, off, l, _)| *s < seg || (*s == seg && off + l <= len)).count(),
        Damage::Set { seg, off, .. } => t.recs.iter().take_while(|(s, o, l, _)| !(*s == seg && off >= *o && off < o + l)).count(),
    }
}

pub fn check_one<K: HKey>(im: &Image, t: &Tail, d: &Damage, cfg: &Cfg, scan: bool) -> (String, Option<(String, String)>) {
    let dir = util::fresh_dir("dmg");
    apply_damage(im, d).materialize(&dir);
    let conf = Config { scan_orphans_on_startup: scan, ..cfg.config() };
    let r = real::open_cas::<K>(&dir, &conf);
    let want = &t.states[intact_prefix(t, d)];
    let out = match r {
        Err(e) if e.starts_with("PANIC") => ("panic".to_string(), Some(("open-panicked".to_string(), format!("open panicked: {e}")))),
        Err(e) => (format!("rejected:{}", e.split(&[':', '('][..]).next().unwrap_or("").trim().replace(' ', "-")), None),
        Ok(cas) => {
            let got: KMap = cas.read_index_state().iter().map(|(k, it)| (k.to_key_bytes().as_ref().to_vec(), (*it.blob_hash.as_bytes(), it.blob_size))).collect();
            if &got == want {
                (format!("accepted-prefix-{}-of-{}", intact_prefix(t, d), t.recs.len()), None)
            } else {
                let show = |m: &KMap| m.iter().map(|(k, (h, s))| format!("{}={}:{s}", util::show(k), hex(&h[..3]))).collect::<Vec<_>>().join(",");
                let which = t.states.iter().position(|s| s == &got);
                (
                    "silently-accepted".to_string(),
                    Some((
                        "damaged-log-accepted".to_string(),
                        format!("open succeeded with index {{{}}}; the longest undamaged prefix ({} of {} records) gives {{{}}}{}", show(&got), intact_prefix(t, d), t.recs.len(), show(want),
                            which.map(|w| format!(" (it equals the state after {w} records)")).unwrap_or_else(|| " (it equals no prefix state: a partial or altered operation was applied)".into())),
                    )),
                )
            }
        }
    };
    util::rm_rf(&dir);
    out
}

pub fn build_image<K: HKey>(cfg: &Cfg, opsq: &[Op]) -> Result<Image, String> {
    let dir = util::fresh_dir("wsrc");
    let mut st = Store::<K>::open(&dir, cfg.config())?;
    for op in opsq {
        st.apply(op)?;
    }
    st.close();
    let im = Image::load(&dir);
    util::rm_rf(&dir);
    Ok(im)
}

pub fn damages(t: &Tail, im: &Image, values: &[u8]) -> Vec<Damage> {
    let mut v = Vec::new();
    if t.recs.is_empty() {
        return v;
    }
    // truncations: every offset from the start of the first tail record to the end of each segment holding tail records
    let mut segs: Vec<u64> = t.recs.iter().map(|r| r.0).collect();
    segs.dedup();
    for seg in segs {
        let len = im.files.get(&format!("{seg}_index.wal")).map_or(0, |b| b.len());
        let start = t.recs.iter().filter(|r| r.0 == seg).map(|r| r.1).min().unwrap();
        for cut in start..len {
            // huge tails: every offset of the first 64 and the last 300 bytes, around every 4 KiB boundary, and every 997th
            let span = len - start;
            if span > 30_000 {
                let rel = cut - start;
                let near_page = rel % 4096 <= 1 || rel % 4096 == 4095;
                if !(rel < 64 || len - cut <= 300 || near_page || rel % 997 == 0) {
                    continue;
                }
            }
            v.push(Damage::Truncate { seg, len: cut });
        }
    }
    for &(seg, off, len, _) in &t.recs {
        let bytes = &im.files[&format!("{seg}_index.wal")];
        // checksum = header bytes 8..40, payload = off+44..off+len
        let positions = (off + 8..off + 40).chain(off + HDR..off + len);
        for p in positions {
            // huge payloads: the checksum, the first and last 64 payload bytes and every 997th
            if len > 30_000 {
                let rel = p - off;
                if !(rel < HDR + 64 || off + len - p <= 64 || rel % 997 == 0) {
                    continue;
                }
            }
            for &x in values {
                let val = if x == 0 { 0 } else { bytes[p] ^ x };
                if val != bytes[p] {
                    v.push(Damage::Set { seg, off: p, val });
                }
            }
        }
    }
    v
}

pub fn case_json<K: HKey>(cfg: &Cfg, opsq: &[Op], cut: Option<usize>, d: &Damage, scan: bool) -> Value {
    json!({"engine": "waldmg", "key": K::NAME, "cfg": cfg, "ops": opsq, "cut": cut, "damage": d, "scan": scan, "text": ops::show_seq::<K>(opsq)})
}

/// Crash images of the history (taken before every mutating call) whose un-checkpointed tail spans >= 2 segments:
/// the only way to obtain such logs, since a clean rollover checkpoints and prunes.
pub fn crash_sources<K: HKey>(cfg: &Cfg, opsq: &[Op]) -> Vec<(usize, Image)> {
    let dir = util::fresh_dir("wsrc");
    let hist = crate::crash::run_history::<K>(&dir, cfg, &[], opsq);
    util::rm_rf(&dir);
    let mut out: Vec<(usize, Image)> = Vec::new();
    let mut seen: Vec<Vec<(String, Vec<u8>)>> = Vec::new();
    for (i, s) in hist.snaps.iter().enumerate() {
        let Ok(t) = locate_tail(&s.image, cfg.n) else { continue };
        let mut segs: Vec<u64> = t.recs.iter().map(|r| r.0).collect();
        segs.dedup();
        if segs.len() < 2 {
            continue;
        }
        let key: Vec<(String, Vec<u8>)> = s.image.files.iter().filter(|(k, _)| !k.contains('/') && (k.ends_with("_index.wal") || k.as_str() == "index")).map(|(k, v)| (k.clone(), v.clone())).collect();
        if seen.contains(&key) {
            continue;
        }
        seen.push(key);
        out.push((i, s.image.clone()));
    }
    out
}

pub fn run_history<K: HKey>(cfg: &Cfg, opsq: &[Op], values: &[u8], only: Option<(Damage, bool)>, res: &mut WorkerResult) -> Vec<Violation> {
    let im = match build_image::<K>(cfg, opsq) {
        Ok(i) => i,
        Err(e) => return vec![Violation::new(&["C10"], "history-failed", format!("{}: {e}", ops::show_seq::<K>(opsq)))],
    };
    run_image::<K>(cfg, opsq, None, &im, values, only, res)
}

pub fn run_image<K: HKey>(cfg: &Cfg, opsq: &[Op], cut: Option<usize>, im: &Image, values: &[u8], only: Option<(Damage, bool)>, res: &mut WorkerResult) -> Vec<Violation> {
    let mut vs = Vec::new();
    let im = im.clone();
    let t = match locate_tail(&im, cfg.n) {
        Ok(t) => t,
        Err(e) => {
            vs.push(Violation::new(&["C10"], "clean-store-malformed", format!("{}: {e}", ops::show_seq::<K>(opsq))));
            return vs;
        }
    };
    res.count("histories", 1);
    res.state(&format!("tail{}-{}", t.recs.len(), t.recs.iter().map(|r| r.2.to_string()).collect::<Vec<_>>().join("/")));
    let ds: Vec<(Damage, bool)> = match only {
        Some(x) => vec![x],
        None => damages(&t, &im, values).into_iter().flat_map(|d| {
            // scan on only for truncations (integrity failures are a legitimate rejection)
            let both = matches!(d, Damage::Truncate { .. });
            let mut v = vec![(d.clone(), false)];
            if both {
                v.push((d, true));
            }
            v
        }).collect(),
    };
    for (d, scan) in ds {
        res.count("cases", 1);
        let (outcome, finding) = check_one::<K>(&im, &t, &d, cfg, scan);
        res.outcomes.insert(format!("{}:{outcome}", if matches!(d, Damage::Truncate { .. }) { "truncate" } else { "flip" }));
        if let Some((oracle, detail)) = finding {
            let kind = match &d {
                Damage::Truncate { .. } => "truncate".to_string(),
                Damage::Set { seg, off, .. } => {
                    let (_, o, _, _) = t.recs.iter().find(|(s, o, l, _)| s == seg && off >= o && off < &(o + l)).copied().unwrap_or((0, 0, 0, 0));
                    if off - o < HDR { "flip-checksum".into() } else { "flip-payload".into() }
                }
            };
            let mut v = Violation::new(&["C10"], &oracle, format!("[{} {}] {} `{}` ({} un-checkpointed records), damage {d:?}, scan={scan}: {detail}", K::NAME, cfg.show(), cut.map_or("closed store after".to_string(), |c| format!("crash image #{c} of")), ops::show_seq::<K>(opsq), t.recs.len()));
            v.sig = format!("{oracle}|{kind}");
            v.replay = case_json::<K>(cfg, opsq, cut, &d, scan);
            vs.push(v);
        }
    }
    vs
}

fn wal_alphabet() -> Vec<Op> {
    use crate::keys::*;
    vec![
        Op::Put { k: 0, c: C_X, ch: 0 },
        Op::Put { k: 0, c: C_Y, ch: 0 },
        Op::Put { k: 1, c: C_X, ch: 0 },
        Op::Remove { k: 0 },
        Op::RemoveRange { lo: ops::B::Unb, hi: ops::B::Unb },
        Op::Checkpoint,
    ]
}

pub fn plan(tier: &str) -> Vec<(Cfg, Vec<Op>)> {
    use crate::keys::*;
    let c = |n| Cfg { n, async_mode: false };
    let mut v = Vec::new();
    let alpha = wal_alphabet();
    let (depth, ns): (usize, Vec<u64>) = if tier == "quick" { (3, vec![10_000, 3]) } else { (4, vec![10_000, 2, 3, 4]) };
    for &n in &ns {
        for d in 1..=depth {
            for i in 0..ops::seq_count(&alpha, d) {
                v.push((c(n), ops::seq_of(&alpha, d, i)));
            }
        }
    }
    // big record, multi-key remove, reopen (replay + checkpoint) then more records
    let put = |k, cc| Op::Put { k, c: cc, ch: 0 };
    v.push((c(10_000), vec![put(BIG, C_X), put(1, C_X)]));
    v.push((c(10_000), vec![put(0, C_X), put(1, C_Y), put(2, C_X), Op::RemoveRange { lo: ops::B::Unb, hi: ops::B::Unb }]));
    v.push((c(10_000), vec![put(0, C_X), Op::Reopen, put(1, C_Y), put(0, C_Y)]));
    v.push((c(4), vec![put(0, C_X), put(1, C_X), Op::Reopen, put(0, C_Y), Op::Remove { k: 1 }]));
    v.push((c(2), vec![put(0, C_X), put(1, C_X), put(2, C_X), Op::Reopen, put(0, C_Y)]));
    v.push((c(10_000), vec![put(0, C_L), put(0, C_E), Op::Remove { k: 0 }]));
    // a checkpoint followed by two or three un-checkpointed records (the first record after the snapshot is special to a reader)
    v.push((c(10_000), vec![put(0, C_X), Op::Checkpoint, put(1, C_X), put(2, C_Y)]));
    v.push((c(10_000), vec![put(0, C_X), Op::Checkpoint, put(1, C_Y), put(0, C_Y), Op::Remove { k: 1 }]));
    v.push((c(3), vec![put(0, C_X), put(1, C_X), Op::Checkpoint, put(2, C_Y), put(0, C_Y)]));
    // a record above 64 KiB (70,000-byte key); its payload ends in the zero high bytes of the size field
    v.push((c(10_000), vec![put(1, C_X), Op::Put { k: HUGE, c: C_X, ch: 0 }]));
    // identical consecutive records
    v.push((c(10_000), vec![put(0, C_X), put(0, C_X), put(1, C_Y)]));
    v.push((c(10_000), vec![put(0, C_X), Op::Checkpoint, put(1, C_Y), put(1, C_Y), put(1, C_Y)]));
    v
}

pub fn run(tier: &str, slice: (u64, u64), seed: u64) -> WorkerResult {
    let mut res = WorkerResult::new("waldmg");
    // thorough: all 255 substitutions on the stores of histories of depth <= 2 and on the special logs, 8 values on the deeper ones
    let values: Vec<u8> = if tier == "quick" { vec![0x01, 0x80, 0xff, 0x00] } else { vec![0x01, 0x02, 0x10, 0x80, 0xff, 0x00, 0x7f, 0x55] };
    let all_values: Vec<u8> = (1..=255u8).collect();
    let p = plan(tier);
    let total = p.len() as u64;
    for (j, (cfg, opsq)) in p.iter().enumerate() {
        if (j as u64 + seed) % slice.1 != slice.0 {
            continue;
        }
        let vals = if tier != "quick" && (opsq.len() <= 2 || opsq.iter().any(|o| matches!(o, Op::Reopen) || matches!(o, Op::Put { k, .. } if *k >= 2))) { &all_values } else { &values };
        let vs = run_history::<String>(cfg, opsq, vals, None, &mut res);
        if res.samples.len() < 2 {
            res.sample(json!({"cfg": cfg, "history": ops::show_seq::<String>(opsq)}));
        }
        for v in vs {
            res.violate(v);
        }
    }
    // multi-segment tails from crash images (N = 1, 2)
    crate::shim::require();
    let alpha = wal_alphabet();
    let mut j = 0u64;
    let mut multi = 0u64;
    for n in [1u64, 2] {
        let d = if tier == "quick" { 2 } else { 3 };
        for i in 0..ops::seq_count(&alpha, d) {
            j += 1;
            if (j + seed) % slice.1 != slice.0 {
                continue;
            }
            let cfg = Cfg { n, async_mode: false };
            let opsq = ops::seq_of(&alpha, d, i);
            for (cut, im) in crash_sources::<String>(&cfg, &opsq) {
                multi += 1;
                for v in run_image::<String>(&cfg, &opsq, Some(cut), &im, &values, None, &mut res) {
                    res.violate(v);
                }
            }
        }
    }
    res.count("multi_segment_images", multi);
    if slice.0 == 0 {
        res.completed.push("crash images with an un-checkpointed tail spanning >= 2 segments (all histories of depth 2 (quick) / 3 over 6 symbols, N in {1,2}, every distinct such image): same damages".to_string());
        res.completed.push(format!(
            "{total} cleanly closed stores (all histories of depth <= {} over 6 symbols for several N, plus big-record / multi-key-remove / replayed-then-extended logs): every truncation offset of the un-checkpointed tail (scan on and off) and every checksum/payload byte x {} values (scan off){}",
            if tier == "quick" { 3 } else { 4 },
            values.len(),
            if tier == "quick" { "" } else { "; all 255 values on the stores of depth <= 2 and the special logs" }
        ));
    }
    res
}

pub fn replay(case: &Value) -> Vec<Violation> {
    let cfg: Cfg = serde_json::from_value(case["cfg"].clone()).expect("cfg");
    let opsq: Vec<Op> = serde_json::from_value(case["ops"].clone()).expect("ops");
    let d: Damage = serde_json::from_value(case["damage"].clone()).expect("damage");
    let scan = case["scan"].as_bool().unwrap_or(false);
    let mut res = WorkerResult::new("waldmg");
    if let Some(cut) = case["cut"].as_u64() {
        crate::shim::require();
        let srcs = crash_sources::<String>(&cfg, &opsq);
        let Some((_, im)) = srcs.into_iter().find(|(c, _)| *c as u64 == cut) else { return vec![] };
        return run_image::<String>(&cfg, &opsq, Some(cut as usize), &im, &[], Some((d, scan)), &mut res);
    }
    run_history::<String>(&cfg, &opsq, &[], Some((d, scan)), &mut res)
}
