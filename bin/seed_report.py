#!/usr/bin/env python3
"""Write seeded/README.md: one row per confirmed seeded change with what it needs and which checks catch it."""
import json, os
rows = []
for name in sorted(os.listdir("/verif/seeded")):
    p = f"/verif/seeded/{name}/meta.json"
    if not os.path.exists(p):
        continue
    m = json.load(open(p))
    det = m.get("detection", {})
    caught = [k for k, v in det.items() if v["result"].startswith("CAUGHT")]
    missed = [k for k, v in det.items() if v["result"].startswith("MISSED")]
    other = [f"{k}: {v['result']}" for k, v in det.items() if not v["result"].startswith(("CAUGHT", "MISSED"))]
    rows.append((name, m["property"], m["needs_to_manifest"], caught, missed, other))
out = ["# Seeded property-breaking changes", "",
       "Each directory holds `patch.diff` (relative to /repo HEAD at the time of confirmation), the author's demonstration test, `NOTES.md`,",
       "my confirmation log (`confirm.log`: suite still passes with the change, demonstration fails with it and passes without) and `meta.json`.",
       "They were written by sub-agents that saw only the text of one property. None is ever committed to /repo.", "",
       "| change | breaks | needs, in order to manifest | caught by | not caught by |", "|---|---|---|---|---|"]
for name, prop, needs, caught, missed, other in rows:
    out.append(f"| {name} | {prop} | {needs} | {', '.join(caught) or '-'} | {', '.join(missed + other) or '-'} |")
open("/verif/seeded/README.md", "w").write("\n".join(out) + "\n")
n_c = sum(1 for r in rows if r[3]); n_m = sum(1 for r in rows if not r[3] and (r[4] or r[5])); n_u = sum(1 for r in rows if not r[3] and not r[4] and not r[5])
print(f"{len(rows)} seeded changes: {n_c} caught by at least one check, {n_m} not caught, {n_u} not yet run")
for r in rows:
    if not r[3]:
        print("  NOT CAUGHT / NOT RUN:", r[0], r[4], r[5])
