#!/usr/bin/env python3
"""Regenerate /verif/MANIFEST.json from bin/props.py (run after editing the table)."""
import json, os, sys, subprocess
ROOT = os.path.dirname(os.path.dirname(os.path.abspath(__file__)))
sys.path.insert(0, os.path.join(ROOT, "bin"))
from props import PROPS, NOT_APPLICABLE, ENGINES

ids = [json.loads(l)["id"] for l in open(os.path.join(ROOT, "properties.jsonl"))]
hooks_commits = subprocess.run(["git", "-C", "/repo", "log", "--format=%H %s"], capture_output=True, text=True).stdout.splitlines()
hook_shas = [l.split()[0] for l in hooks_commits if "verif-hooks" in l or "verif hook" in l.lower()]
TECH = {
    "seq": "bounded-exhaustive enumeration of all operation sequences up to a depth on the real store vs a reference map model",
    "seqtx": "bounded-exhaustive enumeration of sequences with transactions held open across operations",
    "crash": "exhaustive crash-point enumeration: every boundary between mutating libc calls of every bounded history, nested in recovery, on the real code (live-directory images via LD_PRELOAD)",
    "power": "exhaustive enumeration of sync-loss images: every cut x every subset of files losing unsynced bytes, reconstruction validated against the live directory at every cut",
    "fault": "exhaustive single-fault enumeration: EIO at every mutating libc call of every bounded history, continuation and reopen vs an allowed-value model",
    "waldmg": "exhaustive enumeration of truncation offsets and single-byte changes of the un-checkpointed log tail, opened by the real code",
    "plant": "exhaustive small subsets of planted garbage/corruption vs an independent directory/index comparison",
    "input": "exhaustive small-scope input enumeration into the real codecs / API under catch_unwind and an allocation guard",
    "sched": "stateless model checking of the implementation: controlled scheduler over the real locks and files, preemption-bounded exhaustive DFS of interleavings with replay divergence checks",
    "open": "controlled-scheduler exploration of racing opens (every filesystem call a scheduling point), cross-process pause/kill enumeration, exhaustive settings configurations",
}
checks = []
for pid in ids:
    if pid not in PROPS:
        continue
    s = PROPS[pid]
    checks.append({
        "property_id": pid,
        "quick_cmd": f"bin/check {pid} quick",
        "thorough_cmd": f"bin/check {pid} thorough",
        "evidence_file": f"/verif/evidence/{pid}.json",
        "replay_cmd_template": "bin/check --replay {path}",
        "engine": "+".join(e["engine"] for e in s["engines"]),
        "level_claimed": {"category": "model_checking", "text": s["explanation"], "design_ref": s.get("design_ref", "DESIGN.md §3 " + pid + ", §9 (as built)")},
        "level_note": s.get("level_note", "Bounded: holds for every behaviour inside the stated alphabet/depth/bounds only. Trusted: kernel rename/unlink/flock atomicity on tmpfs, parking_lot, the harness's model and decoders."),
        "technique": s.get("technique", "model checking of the implementation (no abstract model): " + "; ".join(dict.fromkeys(TECH[e["engine"]] for e in s["engines"]))),
    })
na = [{"property_id": p, "reason": r} for p, r in NOT_APPLICABLE.items() if p not in PROPS]
m = {
    "version": 1,
    "setup_cmd": "bin/check --build",
    "hooks": {
        "guard": "cargo feature verif-hooks",
        "enable": "the harness crate /verif/harness path-depends on /repo with features=[\"verif-hooks\"]; bin/check rebuilds it from /repo's working tree on every run",
        "baseline_off_cmd": "cd /repo && cargo test --workspace --no-fail-fast --offline",
        "source_commits": hook_shas,
        "add_only": True,
    },
    "engines": ENGINES,
    "checks": checks,
    "not_applicable": na,
    "notes": "All checks explore the real implementation exhaustively within stated bounds; see DESIGN.md. Known findings: known_findings.json.",
}
json.dump(m, open(os.path.join(ROOT, "MANIFEST.json"), "w"), indent=1)
print("wrote MANIFEST.json:", len(checks), "checks,", len(na), "not_applicable")
