#!/usr/bin/env python3
"""bin/seed_detect.py <tier> <name> [<Cxx> ...] — apply seeded/<name>/patch.diff to /repo, run the named checks (default: the
mutant's own property), record the outcome in seeded/<name>/meta.json, and undo the change."""
import json, os, subprocess, sys
tier, name = sys.argv[1], sys.argv[2]
d = f"/verif/seeded/{name}"
meta = json.load(open(f"{d}/meta.json"))
props = sys.argv[3:] or [meta["property"]]
REPO = os.environ.get("VERIF_REPO", "/repo")
if subprocess.run(["git", "-C", REPO, "status", "--porcelain", "--", "src", "Cargo.toml"], capture_output=True, text=True).stdout.strip():
    sys.exit("/repo not clean")
r = subprocess.run(["git", "-C", REPO, "apply", f"{d}/patch.diff"])
if r.returncode != 0:
    sys.exit("patch does not apply")
try:
    for p in props:
        # the evidence files in /verif describe the unchanged tree: keep them out of harm's way
        root = os.environ.get("VERIF_ROOT", "/verif")
        ev = f"{root}/evidence/{p}.json"
        saved = open(ev).read() if os.path.exists(ev) else None
        r = subprocess.run(["bin/check", p, tier], cwd=os.environ.get("VERIF_ROOT", "/verif"), capture_output=True, text=True)
        lines = [l for l in r.stdout.splitlines() if l.startswith(("VIOLATION", "  oracle", "KNOWN", "MACHINERY"))]
        first = next((l.strip()[:300] for l in lines if l.startswith("  oracle")), "")
        verdict = {0: "MISSED (exit 0)", 1: "CAUGHT (exit 1)"}.get(r.returncode, f"MACHINERY exit {r.returncode}")
        meta.setdefault("detection", {})[f"{p} {tier}"] = {"result": verdict, "first_report": first}
        print(name, p, tier, verdict, first[:160])
        if saved is not None:
            open(ev, "w").write(saved)
finally:
    subprocess.run(["git", "-C", REPO, "checkout", "--", "."])
json.dump(meta, open(f"{d}/meta.json", "w"), indent=1)
