#!/bin/bash
# usage: bin/seed_detect_scratch.sh <tier> <name> [...]  — like seed_detect.py, but on a scratch worktree of /repo and a snapshot
# of /verif HEAD under /tmp, so that /repo and the working copy of /verif stay free. Results land in /verif/seeded/<name>/meta.json.
tier=$1; shift
[ -d /tmp/repo-det ] || git -C /repo worktree add -q --detach /tmp/repo-det HEAD
git -C /tmp/repo-det reset -q --hard; git -C /tmp/repo-det checkout -q --detach $(git -C /repo rev-parse HEAD)
[ -d /tmp/verif-snap ] || git -C /verif worktree add -q --detach /tmp/verif-snap HEAD
git -C /tmp/verif-snap checkout -q -- . ; git -C /tmp/verif-snap checkout -q --detach $(git -C /verif rev-parse HEAD)
for n in "$@"; do
  VERIF_ROOT=/tmp/verif-snap VERIF_REPO=/tmp/repo-det python3 /verif/bin/seed_detect.py $tier $n
done
