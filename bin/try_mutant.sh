#!/bin/bash
# usage: bin/try_mutant.sh <patch.diff> <tier> <Cxx> [<Cyy> ...]  — apply a seeded change to /repo, run the named checks, undo it.
patch=$1; tier=$2; shift 2
cd /repo || exit 2
if [ -n "$(git status --porcelain -- src Cargo.toml)" ]; then echo "/repo not clean"; exit 2; fi
git apply "$patch" || { echo "patch does not apply"; exit 3; }
trap 'git -C /repo checkout -- . ' EXIT
cd /verif
for p in "$@"; do
  out=$(bin/check $p $tier 2>&1); rc=$?
  echo "== $p $tier rc=$rc"; echo "$out" | grep -E "^(VIOLATION|KNOWN|  oracle|MACHINERY)" | cut -c1-400 | head -8
done
