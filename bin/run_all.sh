#!/bin/bash
# run every check of MANIFEST.json at the given tier (default quick); prints one line per property
tier=${1:-quick}
cd /verif
for p in $(python3 -c "import json; print(' '.join(c['property_id'] for c in json.load(open('MANIFEST.json'))['checks']))"); do
  s=$(date +%s); out=$(bin/check $p $tier 2>&1); rc=$?; e=$(date +%s)
  echo "$p rc=$rc $((e-s))s $(echo "$out" | grep -E "^(VIOLATION|KNOWN|MACHINERY)" | head -3 | cut -c1-200)"
done
