#!/usr/bin/env python3
"""Import confirmed seeded changes from /tmp/mutout into /verif/seeded/<Cxx>-m<i>/ (patch.diff relative to /repo HEAD,
the demonstration, the author's notes, my confirmation log, meta.json)."""
import json, os, re, shutil, subprocess, sys
NEEDS = {
 "C01-m1": "one transaction writing a small chunk followed by a chunk >= 8 KiB (large chunks bypass the buffer without flushing it): blob bytes permuted",
 "C01-m2": "remove_range over keys sharing content: returns number of freed blobs instead of number of removed keys",
 "C02-m1": "checkpoint whose version is a multiple of num_ops_per_wal, clean restart, more ops, another restart (two cooperating sites: prune boundary + replay's initial highest)",
 "C02-m2": "two keys with identical content, any checkpoint, clean restart: refcount rebuilt from the snapshot is 1 instead of 2; removing one key then deletes the shared blob",
 "C03-m1": "rollover checkpoint (N>=2) killed between unlinking the old segment and renaming index.tmp: acknowledged ops of the deleted segment are lost",
 "C03-m2": "nested crash: recovery truncates the active segment before the after-replay snapshot exists; second crash in that window loses acknowledged ops",
 "C04-m1": "remove of the last reference to X takes the intents lock only after the index update, while another thread commits put(other key, X): blob unlinked under the new key",
 "C04-m2": "delete_orphans validates all orphans first and unlinks without the lock: a put of an orphan's content committing in between is left dangling",
 "C05-m1": "blob renamed into cas/ before the intent is registered: a concurrent remove of the last reference to the same content unlinks it; the put returns Ok and get fails",
 "C05-m2": "get_range clamps with a first index lookup and fetches with a second one: an overwrite short->long in between yields a truncated prefix of the new value",
 "C06-m1": "staging BufWriter not flushed before the rename (try_clone instead of into_inner): blob visible in cas/ empty or truncated until the end of commit",
 "C06-m2": "chunks >= 64 KiB bypass the buffer without flushing earlier small writes: file bytes permuted relative to the hashed order",
 "C07-m1": "re-put of unchanged content skips the rename based on a value captured at put(): key removed/overwritten in between leaves the index pointing at a deleted blob",
 "C07-m2": "the op that opens a new WAL segment returns before deleting the blob it unreferenced (small num_ops_per_wal): blob leaked",
 "C08-m1": "delete_orphans checks all orphans in one pass, then unlinks without locks: concurrent put of orphaned content loses its blob",
 "C08-m2": "staging scan skips dot-files, but real staging files are named .tmpXXXXXX: leftovers after a crash are never reported nor removed",
 "C09-m1": "fdatasync of the staged blob moved after the rename into cas/: re-put of content an acknowledged key already holds + power loss between rename and sync empties the acknowledged key's blob",
 "C09-m2": "WAL fdatasync moved after the unlink of the unreferenced blob: power loss in between loses the record while the old blob is already gone",
 "C10-m1": "checksum verification skipped for segments <= the checkpointed segment (prune uses <): records appended to the checkpoint's own segment are applied unverified",
 "C10-m2": "checksum mismatch treated as torn tail (break) per segment: with >= 2 un-checkpointed segments later segments are still applied after a dropped record",
 "C11-m1": "try_lock moved after settings load and Index::load: a losing open replays the owner's WAL and rewrites index before returning AlreadyOpened",
 "C11-m2": "lock guard whose Drop unlinks LOCK is built before try_lock: a losing open unlinks the owner's LOCK, the next open locks a fresh inode - two live handles",
 "C12-m1": "recompute_stats sums blob_size per key instead of per distinct blob: total_bytes wrong after reopen from a snapshot with shared content",
 "C12-m2": "one Remove op covering >= 2 keys sharing a blob decrements its refcount only once: stale known_blobs / unique_blobs / total_bytes",
 "C13-m1": "staging file named after the key and reused: two live transactions on the same key share an inode; abort after the other's commit corrupts the committed blob or fails its finish",
 "C13-m2": "check-then-create race on a key-derived staging name: two threads calling put(k) concurrently share a staging inode",
 "C14-m1": "failed put after the WAL append (rollover checkpoint save fails / unlink of replaced blob fails) unlinks the just-committed blob: key holds neither old nor new",
 "C14-m2": "failed rollover-checkpoint save followed by checkpoint(): save skipped (in-memory version already advanced) but segments pruned again: other keys lost after reopen",
 "C15-m1": "rollover checkpoint takes the WAL lock before the state lock: deadlocks against a concurrent put/remove/checkpoint holding state and wanting WAL",
 "C15-m2": "orphan clean-up takes the index read lock before the intents mutex: lock-order inversion against put/remove",
 "C16-m1": "Remove decoder pre-sizes its key list from the untrusted count: 5-byte op reserves n*24 bytes",
 "C16-m2": "length prefix added in u32 before widening: key lengths 0xFFFFFFFC..=0xFFFFFFFF panic instead of returning Err",
 "C17-m1": "range read pre-allocates min(len, 1 MiB) and never grows: ranges longer than 1 MiB are silently truncated",
 "C17-m2": "overwrite repoints the entry in place without updating blob_size: get_size/get_range clamp with the stale size after an overwrite with a different length",
 "C18-m1": "writes < 16 KiB are batched before hashing, larger ones hashed directly without draining the batch: hash != BLAKE3(content) for small-then-large chunkings",
 "C18-m2": "blobs > 128 KiB hashed from the staged file by mmap before the BufWriter is flushed: buffered tail never hashed",
 "C19-m1": "num_ops_per_wal validated after Index::load: a rejected open has already replayed/checkpointed with the wrong segment size",
 "C19-m2": "CasManager built from config.pre_create_cas_dirs instead of the stored flag: created lazily, reopened with true => put to a new cas/xx/yy fails with ENOENT",
 "C20-m1": "commit_checkpoint (unlink old segments) runs before the snapshot is saved: crash in between leaves acknowledged versions in no segment",
 "C20-m2": "rollover decided from a cached last-version set when a writer is opened (only right on a boundary): restart mid-segment then crossing the boundary writes out-of-range versions into the old segment, which the checkpoint then unlinks",
}
SRC = os.environ.get("SEED_SRC", "/tmp/mutout")
OFFSET = int(os.environ.get("SEED_OFFSET", "0"))  # round 2: m1 -> m3, m2 -> m4
EXTRA = {}
if os.path.exists(f"{SRC}/NEEDS.json"):
    EXTRA = json.load(open(f"{SRC}/NEEDS.json"))
head = subprocess.run(["git", "-C", "/repo", "rev-parse", "--short", "HEAD"], capture_output=True, text=True).stdout.strip()
for d in sorted(x for x in os.listdir(SRC) if os.path.isdir(f"{SRC}/{x}")):
    for m in ("m1", "m2"):
        src = f"{SRC}/{d}/{m}"
        log = f"{src}/confirm.log"
        if not os.path.exists(log):
            continue
        t = open(log).read()
        if "== done" not in t:
            print(d, m, "NOT CONFIRMED:", t.strip().splitlines()[-1][:100] if t.strip() else "empty")
            continue
        parts = t.split("== ")
        sec = {p.split("\n", 1)[0]: p for p in parts}
        suite = next((v for k, v in sec.items() if k.startswith("suite with change")), "")
        dw = next((v for k, v in sec.items() if k.startswith("demo with change")), "")
        dwo = next((v for k, v in sec.items() if k.startswith("demo without change")), "")
        ok_suite = "70 passed; 2 failed" in suite
        ok_dw = "test result: FAILED" in dw
        ok_dwo = "test result: ok" in dwo and "FAILED" not in dwo
        name = f"{d}-m{int(m[1:]) + OFFSET}"
        if not (ok_suite and ok_dw and ok_dwo):
            print(name, "REJECTED suite/demo-with/demo-without =", ok_suite, ok_dw, ok_dwo)
            continue
        dst = f"/verif/seeded/{name}"
        os.makedirs(dst, exist_ok=True)
        shutil.copy(f"{src}/patch.head.diff", f"{dst}/patch.diff")
        shutil.copy(f"{src}/demo_{d}.rs", f"{dst}/demo_{d}.rs")
        if os.path.exists(f"{src}/NOTES.md"):
            shutil.copy(f"{src}/NOTES.md", f"{dst}/NOTES.md")
        shutil.copy(log, f"{dst}/confirm.log")
        base = re.search(r"== base (\w+)", t).group(1)
        meta = {}
        if os.path.exists(f"{dst}/meta.json"):
            meta = json.load(open(f"{dst}/meta.json"))
        meta.update({
            "property": d,
            "needs_to_manifest": NEEDS.get(name, EXTRA.get(name, "see NOTES.md")),
            "confirmed_by_me": {
                "where": f"scratch worktree /tmp/mut/{d} at /repo commit {base} (removed afterwards)",
                "commands": ["git apply --3way patch.diff", "cargo test --offline --lib --no-fail-fast", f"cargo test --offline --test demo_{d}  (with the change)", f"git checkout -- . && cargo test --offline --test demo_{d}  (without the change)"],
                "suite_with_change": "70 passed; 2 failed (the two sandbox always-fail tests of BASELINE.json)",
                "demo_with_change": "fails",
                "demo_without_change": "passes",
            },
        })
        meta.setdefault("detection", {})
        json.dump(meta, open(f"{dst}/meta.json", "w"), indent=1)
        print(name, "imported")
