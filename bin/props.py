"""Property -> engines table used by bin/check (kept next to MANIFEST.json, which names the same commands)."""

ASSUMPTIONS = [
    "bounded: alphabet, depth, participants and bounds as listed in coverage.bounds_completed; nothing beyond them is claimed",
    "the implementation itself is executed (no abstract model); the reference is a BTreeMap model and independent format decoders in /verif/harness",
    "tmpfs (/dev/shm) behaves like the abstract filesystem: rename/unlink atomic, flock exclusive",
    "hooks (cargo feature verif-hooks) only add scheduling points; the explored code is the shipped code",
]

SEQ_RULE = ("every operation sequence of exactly the stated depth over the stated alphabet (all |A|^d of them, hence every shorter "
            "sequence as a prefix) is executed on the real store from a fresh directory, for every listed (key type, N, sync mode); "
            "after every step the full observation is compared with the model. states = distinct abstract states "
            "(key->content map, log position mod N, snapshot lag) reached; transitions = operation steps executed.")


def seq(explanation, **kw):
    d = {"engines": [{"engine": "seq", "shim": False}], "rule": SEQ_RULE, "explanation": explanation}
    d.update(kw)
    return d


PROPS = {
    "C01": seq("Ordered-map semantics: every read after every step of every sequence equals the BTreeMap model, incl. return values of remove/remove_range."),
    "C02": seq("Reopen and Checkpoint are alphabet symbols, so they occur at every position of every history for N in {1,2,3,10000} and both sync modes; "
               "each leaf restarts twice more. Observation before drop == after open; the closed directory is decoded independently at every restart."),
    "C07": seq("After every step of every sequence: the set of regular files under cas/ equals one file per distinct content referenced by the model; staging/ is empty."),
    "C12": seq("After every step and every restart: known_blobs/refcounts, unique_blobs, total_bytes and per-key sizes equal the values derived from the model."),
    "C13": seq("Abort (begin, write*, drop) is an alphabet symbol at every position; the whole directory (log bytes, snapshot, cas/, staging/) must be byte-identical "
               "before and after, and every read unchanged, also after the following restarts."),
}

CRASH_RULE = ("every history of the stated depth over the stated alphabet (after the stated clean prefix) is executed once on the real store with "
              "the LD_PRELOAD shim calling back before every mutating libc filesystem call; the live directory copied at that moment is crash image k "
              "(process-kill model). Every distinct (image, acked, in-flight) is checked structurally with independent decoders, then recovered with "
              "open_with_recover, compared with {acked, acked+in-flight}, cleaned, and driven through a usability suffix; where stated, the recovery "
              "itself is cut again at every mutating call (nested). states = distinct crash images; transitions = images recovered (incl. nested).")


def crash(explanation, **kw):
    d = {"engines": [{"engine": "crash", "shim": True}], "rule": CRASH_RULE, "explanation": explanation}
    d.update(kw)
    return d


PROPS.update({
    "C03": crash("Crash atomicity: at every boundary between two mutating filesystem calls of every history (incl. first-time initialisation, rollover, checkpoint, "
                 "multi-key remove_range, records and blobs larger than the 8 KiB buffers) the next open succeeds, shows acked or acked+in-flight, and stays usable; "
                 "recovery itself is cut again at every call."),
    "C20": crash("On every crash image an independent decoder requires: only complete checksummed records (+ at most one end marker) per segment, versions strictly "
                 "increasing and inside (iN,(i+1)N], a completely parsing snapshot, snapshot+log == acked or acked+in-flight, no version reused within a history or after recovery.",
                 engines=[{"engine": "crash", "shim": True}, {"engine": "seq", "shim": False}]),
})

PROPS["C14"] = {
    "engines": [{"engine": "fault", "shim": True}],
    "rule": ("every history of the stated depth over the stated alphabet is first run fault-free to count its m mutating/sync libc calls (incl. those of open and close); "
             "then for every k in 1..m it is re-run with call k returning EIO without side effect, continued to its end and reopened cleanly. A per-key "
             "set-of-allowed-values model (old or new for keys of failed operations, exact for all others) is checked by reading every key after every step and after the reopen. "
             "Sub-plans labelled 'two faults' continue to deviation bound 2: for every k, every later call k2 of the run that already has fault k fails as well; a pair is judged only when "
             "the two failing calls belong to different API calls (one failing call per operation, as the property states; pairs inside one call are counted as not judged). "
             "states = distinct (faulted call site, operation in flight, number of failed ops); transitions = operations executed."),
    "explanation": "One injected I/O failure at every mutating filesystem call of every bounded history: no panic, the failed operation's keys hold old or new, all other keys exact, reopen succeeds.",
}

INPUT_RULE = ("exhaustive small-scope enumeration of inputs (listed per sweep in coverage.bounds_completed), each fed to the real codec / API function under "
              "catch_unwind and a counting global allocator, in child processes so that an abort is a finding. states = distinct parameter classes, "
              "transitions = cases = inputs evaluated.")
PROPS["C16"] = {"engines": [{"engine": "input", "shim": False}], "rule": INPUT_RULE,
                "explanation": "Codecs: all keys/ops/snapshots of a small scope round-trip; all byte strings up to a bound and all single-position mutations of valid encodings decode to a value or an error without panic, with allocation bounded by 32*len+2048 bytes. The 'randomly beyond' clause is not covered (sampling is another family).",
                "assumptions": ["the sampling clause of the quantifier ('randomly beyond') is out of scope for this technique"]}
PROPS["C17"] = {"engines": [{"engine": "input", "shim": False}], "rule": INPUT_RULE,
                "explanation": "Range reads: every (L,start,end) of the stated grid incl. 2^32, 2^63, 2^64-1 and L around 4 KiB/8 KiB buffers equals the slice formula; inverted ranges inside the blob are rejected; no panic; allocation <= L + 64 KiB; get_size and get_reader agree."}
PROPS["C18"] = {"engines": [{"engine": "input", "shim": False}], "rule": INPUT_RULE,
                "explanation": "Identity from content only: all short contents x all compositions x empty writes, and buffer-straddling splits of a 20000-byte content, give (blake3, len) and the file at the independently derived path; the hash<->path map is checked on 32768 hashes (every byte position x value). The 'random' clauses are not covered."}

PROPS["C10"] = {"engines": [{"engine": "waldmg", "shim": True}],
                "rule": ("for every cleanly closed store produced by the listed histories the un-checkpointed records are located with an independent decoder; every truncation "
                         "offset of that tail (later segments dropped) and every byte of every checksum and payload x the stated values is applied to a copy, which is opened "
                         "with Cas::open under catch_unwind. states = distinct damaged inputs, transitions = opens."),
                "explanation": "A damaged log is rejected with an error or yields exactly the index (key -> hash,size) after the longest undamaged prefix, never a panic, for every truncation offset and every single-byte change of checksum/payload."}

PROPS["C08"] = {"engines": [{"engine": "plant", "shim": True}, {"engine": "crash", "shim": True}],
                "rule": ("PLANT: every subset (size <= 2 quick / 3 thorough) of an 12-item garbage/corruption menu is planted into every closed store of every history up to the stated depth; "
                         "open_with_recover (verify on and off) must report exactly the independently computed orphan / invalid / missing / corrupted / staging sets; delete_orphans, "
                         "delete_orphan and quarantine_orphans must remove exactly the garbage and never a referenced blob. CRASH: the same comparison on every crash image. " + CRASH_RULE),
                "explanation": "Orphan scan exactness and clean-up safety on every crash image and under exhaustive small subsets of planted garbage. The concurrent clause (clean-up vs put of orphaned content) is decided by the SCHED engine when present."}
PROPS["C06"] = {"engines": [{"engine": "crash", "shim": True}, {"engine": "seq", "shim": False}],
                "rule": CRASH_RULE + " SEQ: " + SEQ_RULE,
                "explanation": "On every crash image every file under cas/ is re-hashed and must equal the hash its path encodes (no empty, partial, in-place-written or stray file is ever visible); in every sequence, readers obtained before each overwrite/removal are drained afterwards and must stream the original bytes; cas/ files are re-hashed after every step."}
PROPS["C12"]["engines"].append({"engine": "crash", "shim": True})

SCHED_RULE = ("every listed small concurrent program is executed on the real store under a controlled scheduler (one OS thread runs at a time; scheduling points before every "
              "index-lock acquisition, before every visible filesystem call - blob-level calls under cas/, renames/unlinks touching cas/ - and between API calls); all interleavings "
              "of two-thread programs are enumerated without bound, three-thread and two-ops-per-thread programs up to the stated preemption bound, by depth-first search over the "
              "scheduler's choices with divergence checking on every replayed prefix. states = distinct (program, set of final outcomes); transitions = scheduling steps executed.")


def sched(explanation, extra=None, **kw):
    d = {"engines": [{"engine": "sched", "shim": True}] + (extra or []), "rule": SCHED_RULE, "explanation": explanation}
    d.update(kw)
    return d


PROPS["C04"] = sched("At every scheduling step of every explored interleaving, with all threads parked, every key visible in the index must resolve to an existing blob of the recorded size; at quiescence and after reopen every value must read back intact.")
PROPS["C05"] = sched("Every read under every explored interleaving must succeed, and a brute-force search must find a real-time-respecting linearization (get/put one point, remove/remove_range two points) that explains all results and the final contents; readers are drained after further steps.")
PROPS["C15"] = sched("A reachable scheduling state with unfinished threads and no enabled thread (all pending lock acquisitions blocked) is a deadlock; a running thread that reaches no scheduling point for 60 s is a hang. All pairs of API calls incl. explicit and rollover checkpoints and clean-up, unbounded; triples bounded.")
for _p in ("C01", "C07", "C12", "C13"):
    PROPS[_p]["engines"].append({"engine": "seqtx", "shim": False})
PROPS["C13"]["engines"].append({"engine": "sched", "shim": True})
PROPS["C20"]["engines"].append({"engine": "sched", "shim": True})
PROPS["C02"]["engines"].append({"engine": "sched", "shim": True})
PROPS["C07"]["engines"].append({"engine": "sched", "shim": True})
PROPS["C06"]["engines"].append({"engine": "sched", "shim": True})
PROPS["C06"]["engines"].append({"engine": "input", "shim": False})
PROPS["C08"]["engines"].append({"engine": "sched", "shim": True})
PROPS["C14"]["engines"].append({"engine": "sched", "shim": True})

PROPS["C11"] = {"engines": [{"engine": "open", "shim": True}],
                "rule": ("threads: 2 and 3 racing Cas::open calls on a fresh directory, a populated closed store and a store with an un-replayed WAL tail, under the controlled scheduler with EVERY "
                         "filesystem call under the root as a scheduling point, all schedules within the stated preemption bound; processes: the owner process is paused before each of its "
                         "filesystem calls in turn while a second process opens the same directory (real flock), then the owner is SIGKILLed; all 6 drop orders of handle / clone / OrphanStats. "
                         "states = distinct (program, outcomes); transitions = scheduling steps / pause points."),
                "explanation": "Exactly one of racing opens succeeds, losers get AlreadyOpened having made no mutating call beyond opening LOCK, the directory equals that of a solo open, and a new open succeeds only after the last owner object is dropped or the owner process is killed."}
PROPS["C19"] = {"engines": [{"engine": "open", "shim": True}],
                "rule": ("all pairs (N at creation, N at reopen) over {1,2,3,4,10000} x 8 histories (incl. un-replayed WAL tails), edited stored format versions, and the four combinations of "
                         "pre-created / lazy directory tree at creation and at reopen, each executed on the real store with the rejected open's libc calls traced by the shim. "
                         "states = distinct configurations; transitions = cases."),
                "explanation": "A mismatching open is rejected before any mutating call other than opening LOCK, leaves the directory byte-identical, and a later matching open sees the model's data; the pre-creation choice is remembered and unobservable."}

PROPS["C09"] = {"engines": [{"engine": "power", "shim": True}],
                "rule": ("the histories of the CRASH engine (Sync mode) are executed once with the shim recording every filesystem call and its result; a small filesystem model (names, "
                         "inodes, per-inode content as of its last fsync/fdatasync) is replayed over the trace. At every cut the no-loss reconstruction must equal the live directory "
                         "byte for byte (model bound to the implementation; counted in traces_validated_against_impl). For every cut and every subset of the inodes holding "
                         "unsynced bytes (the empty subset wherever such bytes exist), those inodes revert to their synced content and the image is recovered and checked with the C03 oracles. states = distinct loss images; "
                         "transitions = images recovered."),
                "explanation": "Power-loss durability in Sync mode: on every image in which any subset of files loses the bytes not covered by an explicit sync (directory operations persist in issue order) the next open succeeds, acknowledged operations survive with intact contents and the in-flight operation is all-or-nothing.",
                "count_cases_as_traces": False}

ENGINES = [
    {"name": "seq", "path": "harness/src/seq.rs", "serves_properties": ["C01", "C02", "C07", "C12", "C13"],
     "kind_free_text": "bounded-exhaustive operation-sequence enumeration on the real store vs BTreeMap model + independent on-disk decoders"},
    {"name": "fault", "path": "harness/src/fault.rs", "serves_properties": ["C14"],
     "kind_free_text": "one EIO at every mutating libc call of every bounded history (LD_PRELOAD shim), and every pair of such calls in different operations on small sub-plans; continuation + reopen vs per-key allowed-value model"},
    {"name": "input", "path": "harness/src/input.rs", "serves_properties": ["C16", "C17", "C18"],
     "kind_free_text": "exhaustive small-scope input enumeration into the real codecs / range reads / chunked puts, under catch_unwind and an allocation guard"},
    {"name": "waldmg", "path": "harness/src/waldmg.rs", "serves_properties": ["C10"],
     "kind_free_text": "every truncation offset / single-byte change of the un-checkpointed WAL tail of bounded-history stores, opened with the real Cas::open"},
    {"name": "plant", "path": "harness/src/plant.rs", "serves_properties": ["C08"],
     "kind_free_text": "exhaustive small subsets of planted garbage/corruption in every bounded-history store: scan classification and clean-up exactness"},
    {"name": "sched", "path": "harness/src/sched.rs + conc.rs", "serves_properties": ["C04", "C05", "C15", "C02", "C06", "C07", "C08", "C13", "C14", "C20"],
     "kind_free_text": "CHESS-style controlled scheduler over the real parking_lot locks and real files (repo hooks + LD_PRELOAD shim), preemption-bounded exhaustive DFS, linearizability by brute force"},
    {"name": "open", "path": "harness/src/open.rs", "serves_properties": ["C11", "C19"],
     "kind_free_text": "racing opens under the controlled scheduler with every filesystem call as a point; cross-process pause/kill of the owner; exhaustive settings-gate configurations"},
    {"name": "power", "path": "harness/src/power.rs", "serves_properties": ["C09"],
     "kind_free_text": "sync-loss images reconstructed from the shim's syscall trace, validated against live snapshots at every cut, every subset of dirty files lost"},
    {"name": "seqtx", "path": "harness/src/seqtx.rs", "serves_properties": ["C01", "C07", "C12", "C13"],
     "kind_free_text": "sequential histories with transactions held open across other operations (begin/write/finish/drop as separate symbols, two slots), vs the BTreeMap model"},
    {"name": "crash", "path": "harness/src/crash.rs", "serves_properties": ["C03", "C06", "C08", "C12", "C20"],
     "kind_free_text": "every syscall boundary of every bounded history: live-directory crash images via LD_PRELOAD shim, recovered and checked, nested in recovery"},
]

# properties not (yet) claimed; kept current as engines land
NOT_APPLICABLE = {}


SEQTX_RULE = ("SEQTX: every sequence of the stated depth over 13 symbols (begin / write / finish / drop on two transaction slots, atomic put, remove, reopen) after the stated "
              "prefix; symbols not applicable in the current state are skipped; after every step the full observation is compared with the model (staging/ must hold exactly one "
              "file per open transaction). states = distinct (map, open slots, log position); transitions = steps.")
PLANT_RULE = ("PLANT: every subset (size <= 2 quick / 3 thorough) of an 12-item garbage/corruption menu planted into every closed store of every history up to the stated depth; "
              "open_with_recover (verify on and off) must report exactly the independently computed sets; delete_orphans, delete_orphan and quarantine_orphans must remove exactly the garbage.")
ENGINE_RULES = {
    "seq": "SEQ: " + SEQ_RULE,
    "seqtx": SEQTX_RULE,
    "crash": "CRASH: " + CRASH_RULE,
    "sched": "SCHED: " + SCHED_RULE,
    "input": "INPUT: " + INPUT_RULE,
    "plant": PLANT_RULE,
    "power": PROPS["C09"]["rule"],
    "fault": PROPS["C14"]["rule"],
    "waldmg": PROPS["C10"]["rule"],
    "open": None,  # per property (C11 / C19 differ)
}
for _pid, _spec in PROPS.items():
    _parts = []
    for _e in _spec["engines"]:
        _r = ENGINE_RULES.get(_e["engine"])
        _parts.append(_r if _r else _spec["rule"])
    _spec["rule"] = "  ||  ".join(dict.fromkeys(_parts))
