"""Property -> engines table used by bin/check (kept next to MANIFEST.json, which names the same commands)."""

ASSUMPTIONS = [
    "bounded: alphabet, depth, participants and bounds as listed in coverage.bounds_completed; nothing beyond them is claimed",
    "the implementation itself is executed (no abstract model); the reference is a BTreeMap model and independent format decoders in /verif/harness",
    "tmpfs (/dev/shm) behaves like the abstract filesystem: rename/unlink atomic, flock exclusive",
    "hooks (cargo feature verif-hooks) only add scheduling points; the explored code is the shipped code",
]

SEQ_RULE = ("every operation sequence of exactly the stated depth over the stated alphabet (all |A|^d of them, hence every shorter "
            "sequence as a prefix) is executed on the real store from a fresh directory, for every listed (key type, N, sync mode); "
            "after every step the full observation is compared with the model. states = distinct abstract states "
            "(key->content map, log position mod N, snapshot lag) reached; transitions = operation steps executed.")


def seq(explanation, **kw):
    d = {"engines": [{"engine": "seq", "shim": False}], "rule": SEQ_RULE, "explanation": explanation}
    d.update(kw)
    return d


PROPS = {
    "C01": seq("Ordered-map semantics: every read after every step of every sequence equals the BTreeMap model, incl. return values of remove/remove_range."),
    "C02": seq("Reopen and Checkpoint are alphabet symbols, so they occur at every position of every history for N in {1,2,3,10000} and both sync modes; "
               "each leaf restarts twice more. Observation before drop == after open; the closed directory is decoded independently at every restart."),
    "C07": seq("After every step of every sequence: the set of regular files under cas/ equals one file per distinct content referenced by the model; staging/ is empty."),
    "C12": seq("After every step and every restart: known_blobs/refcounts, unique_blobs, total_bytes and per-key sizes equal the values derived from the model."),
    "C13": seq("Abort (begin, write*, drop) is an alphabet symbol at every position; the whole directory (log bytes, snapshot, cas/, staging/) must be byte-identical "
               "before and after, and every read unchanged, also after the following restarts."),
}

ENGINES = [
    {"name": "seq", "path": "harness/src/seq.rs", "serves_properties": ["C01", "C02", "C07", "C12", "C13"],
     "kind_free_text": "bounded-exhaustive operation-sequence enumeration on the real store vs BTreeMap model + independent on-disk decoders"},
]

# properties not (yet) claimed; kept current as engines land
NOT_APPLICABLE = {p: "engine not built yet in this round (planned, see DESIGN.md §3)" for p in
                  ["C03", "C04", "C05", "C06", "C08", "C09", "C10", "C11", "C14", "C15", "C16", "C17", "C18", "C19", "C20"]}
