/* fsshim — LD_PRELOAD libc interposer. The one place the filesystem environment is owned.
 *
 * Deliberately dumb: for every interposed call it builds a `struct fsshim_call`, asks the installed
 * pre-callback what to do (0 = proceed, >0 = fail with that errno and no side effect), performs the
 * real call, and reports the result to the post-callback. All policy (snapshot / trace / kill@k /
 * fail@k / yield) lives in the harness (harness/src/shim.rs). A thread-local re-entrancy flag lets
 * the callbacks' own file I/O pass through untouched.
 */
#define _GNU_SOURCE
#include <dlfcn.h>
#include <errno.h>
#include <fcntl.h>
#include <stdarg.h>
#include <stdio.h>
#include <stdlib.h>
#include <string.h>
#include <sys/stat.h>
#include <sys/types.h>
#include <sys/uio.h>
#include <unistd.h>

enum {
    K_OPEN = 1, K_WRITE, K_PWRITE, K_FSYNC, K_FDATASYNC, K_RENAME, K_UNLINK, K_RMDIR, K_MKDIR, K_LINK,
    K_SYMLINK, K_TRUNCATE, K_FTRUNCATE, K_FALLOCATE, K_COPYRANGE, K_SENDFILE, K_FLOCK, K_CLOSE, K_STAT,
    K_SYNCRANGE, K_OPENDIR
};

struct fsshim_call {
    int kind;
    int fd;        /* fd argument (or dirfd) */
    int fd2;       /* second fd (copy_file_range/sendfile in-fd) */
    int flags;     /* open flags / flock op */
    const char *path;
    const char *path2;
    const void *buf;
    long long off; /* -1 = current position / append */
    long long len;
};

typedef int (*fsshim_pre_t)(const struct fsshim_call *);
typedef void (*fsshim_post_t)(const struct fsshim_call *, long long ret, int err);

static fsshim_pre_t g_pre;
static fsshim_post_t g_post;
static __thread int in_cb;

void fsshim_install(fsshim_pre_t pre, fsshim_post_t post) {
    g_pre = pre;
    g_post = post;
}
int fsshim_present(void) { return 1; }
/* let the harness mark its own I/O (snapshots etc.) as pass-through */
void fsshim_passthrough(int on) { in_cb += on ? 1 : -1; }

#define REAL(name) \
    static __typeof__(&name) real_##name; \
    if (!real_##name) real_##name = (__typeof__(&name))dlsym(RTLD_NEXT, #name);

static inline int active(void) { return g_pre != NULL && !in_cb; }

static int pre(const struct fsshim_call *c) {
    in_cb++;
    int r = g_pre(c);
    in_cb--;
    return r;
}
static void post(const struct fsshim_call *c, long long ret, int err) {
    if (!g_post) return;
    in_cb++;
    g_post(c, ret, err);
    in_cb--;
    errno = err;
}

/* resolve (dirfd, path) to something the harness can prefix-match */
static const char *resolve(int dirfd, const char *path, char *buf, size_t n) {
    if (!path) return path;
    if (path[0] == '/' || dirfd == AT_FDCWD) return path;
    char link[64];
    snprintf(link, sizeof link, "/proc/self/fd/%d", dirfd);
    ssize_t l = readlink(link, buf, n - 2);
    if (l <= 0) return path;
    buf[l] = '/';
    strncpy(buf + l + 1, path, n - l - 2);
    buf[n - 1] = 0;
    return buf;
}

#define GUARD_INT(callexpr, C) \
    do { \
        if (!active()) return (callexpr); \
        int e_ = pre(&(C)); \
        if (e_ > 0) { post(&(C), -1, e_); errno = e_; return -1; } \
        long long r_ = (callexpr); \
        int err_ = errno; \
        post(&(C), r_, err_); \
        errno = err_; \
        return r_; \
    } while (0)

/* ---- open family ---- */
static int do_open(int which, int dirfd, const char *path, int flags, mode_t mode) {
    static int (*r_open)(const char *, int, ...);
    static int (*r_open64)(const char *, int, ...);
    static int (*r_openat)(int, const char *, int, ...);
    static int (*r_openat64)(int, const char *, int, ...);
    if (!r_open) {
        r_open = dlsym(RTLD_NEXT, "open");
        r_open64 = dlsym(RTLD_NEXT, "open64");
        r_openat = dlsym(RTLD_NEXT, "openat");
        r_openat64 = dlsym(RTLD_NEXT, "openat64");
    }
    char buf[4096];
    struct fsshim_call c = {K_OPEN, dirfd, -1, flags, NULL, NULL, NULL, -1, (long long)mode};
#define CALL_OPEN() (which == 0 ? r_open(path, flags, mode) : which == 1 ? r_open64(path, flags, mode) : which == 2 ? r_openat(dirfd, path, flags, mode) : r_openat64(dirfd, path, flags, mode))
    if (!active()) return CALL_OPEN();
    c.path = resolve(which >= 2 ? dirfd : AT_FDCWD, path, buf, sizeof buf);
    int e = pre(&c);
    if (e > 0) { post(&c, -1, e); errno = e; return -1; }
    int r = CALL_OPEN();
    int err = errno;
    post(&c, r, err);
    errno = err;
    return r;
}
static mode_t get_mode(int flags, va_list ap) {
    if ((flags & O_CREAT) || (flags & O_TMPFILE) == O_TMPFILE) return (mode_t)va_arg(ap, int);
    return 0;
}
int open(const char *path, int flags, ...) { va_list ap; va_start(ap, flags); mode_t m = get_mode(flags, ap); va_end(ap); return do_open(0, AT_FDCWD, path, flags, m); }
int open64(const char *path, int flags, ...) { va_list ap; va_start(ap, flags); mode_t m = get_mode(flags, ap); va_end(ap); return do_open(1, AT_FDCWD, path, flags, m); }
int openat(int dirfd, const char *path, int flags, ...) { va_list ap; va_start(ap, flags); mode_t m = get_mode(flags, ap); va_end(ap); return do_open(2, dirfd, path, flags, m); }
int openat64(int dirfd, const char *path, int flags, ...) { va_list ap; va_start(ap, flags); mode_t m = get_mode(flags, ap); va_end(ap); return do_open(3, dirfd, path, flags, m); }
int creat(const char *path, mode_t mode) { return do_open(0, AT_FDCWD, path, O_CREAT | O_WRONLY | O_TRUNC, mode); }
int creat64(const char *path, mode_t mode) { return do_open(1, AT_FDCWD, path, O_CREAT | O_WRONLY | O_TRUNC, mode); }

/* ---- data ---- */
ssize_t write(int fd, const void *b, size_t n) {
    REAL(write);
    struct fsshim_call c = {K_WRITE, fd, -1, 0, NULL, NULL, b, -1, (long long)n};
    GUARD_INT(real_write(fd, b, n), c);
}
ssize_t pwrite(int fd, const void *b, size_t n, off_t off) {
    REAL(pwrite);
    struct fsshim_call c = {K_PWRITE, fd, -1, 0, NULL, NULL, b, (long long)off, (long long)n};
    GUARD_INT(real_pwrite(fd, b, n, off), c);
}
ssize_t pwrite64(int fd, const void *b, size_t n, off64_t off) {
    REAL(pwrite64);
    struct fsshim_call c = {K_PWRITE, fd, -1, 0, NULL, NULL, b, (long long)off, (long long)n};
    GUARD_INT(real_pwrite64(fd, b, n, off), c);
}
/* vectored writes are flattened so the harness sees the bytes */
static char *flatten(const struct iovec *iov, int cnt, size_t *total) {
    size_t t = 0;
    for (int i = 0; i < cnt; i++) t += iov[i].iov_len;
    char *p = malloc(t ? t : 1);
    size_t o = 0;
    for (int i = 0; i < cnt; i++) { memcpy(p + o, iov[i].iov_base, iov[i].iov_len); o += iov[i].iov_len; }
    *total = t;
    return p;
}
ssize_t writev(int fd, const struct iovec *iov, int cnt) {
    REAL(writev);
    if (!active()) return real_writev(fd, iov, cnt);
    size_t t; char *p = flatten(iov, cnt, &t);
    struct fsshim_call c = {K_WRITE, fd, -1, 0, NULL, NULL, p, -1, (long long)t};
    int e = pre(&c);
    if (e > 0) { post(&c, -1, e); free(p); errno = e; return -1; }
    ssize_t r = real_writev(fd, iov, cnt); int err = errno;
    post(&c, r, err); free(p); errno = err; return r;
}
ssize_t pwritev(int fd, const struct iovec *iov, int cnt, off_t off) {
    REAL(pwritev);
    if (!active()) return real_pwritev(fd, iov, cnt, off);
    size_t t; char *p = flatten(iov, cnt, &t);
    struct fsshim_call c = {K_PWRITE, fd, -1, 0, NULL, NULL, p, (long long)off, (long long)t};
    int e = pre(&c);
    if (e > 0) { post(&c, -1, e); free(p); errno = e; return -1; }
    ssize_t r = real_pwritev(fd, iov, cnt, off); int err = errno;
    post(&c, r, err); free(p); errno = err; return r;
}
int fsync(int fd) { REAL(fsync); struct fsshim_call c = {K_FSYNC, fd, -1, 0, NULL, NULL, NULL, -1, 0}; GUARD_INT(real_fsync(fd), c); }
int fdatasync(int fd) { REAL(fdatasync); struct fsshim_call c = {K_FDATASYNC, fd, -1, 0, NULL, NULL, NULL, -1, 0}; GUARD_INT(real_fdatasync(fd), c); }
int sync_file_range(int fd, off64_t off, off64_t n, unsigned int fl) {
    REAL(sync_file_range);
    struct fsshim_call c = {K_SYNCRANGE, fd, -1, (int)fl, NULL, NULL, NULL, (long long)off, (long long)n};
    GUARD_INT(real_sync_file_range(fd, off, n, fl), c);
}
int ftruncate(int fd, off_t n) { REAL(ftruncate); struct fsshim_call c = {K_FTRUNCATE, fd, -1, 0, NULL, NULL, NULL, -1, (long long)n}; GUARD_INT(real_ftruncate(fd, n), c); }
int ftruncate64(int fd, off64_t n) { REAL(ftruncate64); struct fsshim_call c = {K_FTRUNCATE, fd, -1, 0, NULL, NULL, NULL, -1, (long long)n}; GUARD_INT(real_ftruncate64(fd, n), c); }
int truncate(const char *p, off_t n) { REAL(truncate); struct fsshim_call c = {K_TRUNCATE, -1, -1, 0, p, NULL, NULL, -1, (long long)n}; GUARD_INT(real_truncate(p, n), c); }
int truncate64(const char *p, off64_t n) { REAL(truncate64); struct fsshim_call c = {K_TRUNCATE, -1, -1, 0, p, NULL, NULL, -1, (long long)n}; GUARD_INT(real_truncate64(p, n), c); }
int fallocate(int fd, int mode, off_t off, off_t n) { REAL(fallocate); struct fsshim_call c = {K_FALLOCATE, fd, -1, mode, NULL, NULL, NULL, (long long)off, (long long)n}; GUARD_INT(real_fallocate(fd, mode, off, n), c); }
int fallocate64(int fd, int mode, off64_t off, off64_t n) { REAL(fallocate64); struct fsshim_call c = {K_FALLOCATE, fd, -1, mode, NULL, NULL, NULL, (long long)off, (long long)n}; GUARD_INT(real_fallocate64(fd, mode, off, n), c); }
int posix_fallocate(int fd, off_t off, off_t n) { REAL(posix_fallocate); struct fsshim_call c = {K_FALLOCATE, fd, -1, 0, NULL, NULL, NULL, (long long)off, (long long)n}; GUARD_INT(real_posix_fallocate(fd, off, n), c); }
ssize_t copy_file_range(int fi, off64_t *oi, int fo, off64_t *oo, size_t n, unsigned int fl) {
    REAL(copy_file_range);
    struct fsshim_call c = {K_COPYRANGE, fo, fi, (int)fl, NULL, NULL, NULL, oo ? (long long)*oo : -1, (long long)n};
    GUARD_INT(real_copy_file_range(fi, oi, fo, oo, n, fl), c);
}
ssize_t sendfile(int fo, int fi, off_t *off, size_t n) {
    static ssize_t (*real_sendfile)(int, int, off_t *, size_t);
    if (!real_sendfile) real_sendfile = dlsym(RTLD_NEXT, "sendfile");
    struct fsshim_call c = {K_SENDFILE, fo, fi, 0, NULL, NULL, NULL, -1, (long long)n};
    GUARD_INT(real_sendfile(fo, fi, off, n), c);
}
ssize_t sendfile64(int fo, int fi, off64_t *off, size_t n) {
    static ssize_t (*real_sendfile64)(int, int, off64_t *, size_t);
    if (!real_sendfile64) real_sendfile64 = dlsym(RTLD_NEXT, "sendfile64");
    struct fsshim_call c = {K_SENDFILE, fo, fi, 0, NULL, NULL, NULL, -1, (long long)n};
    GUARD_INT(real_sendfile64(fo, fi, off, n), c);
}

/* ---- namespace ---- */
int rename(const char *a, const char *b) { REAL(rename); struct fsshim_call c = {K_RENAME, -1, -1, 0, a, b, NULL, -1, 0}; GUARD_INT(real_rename(a, b), c); }
int renameat(int da, const char *a, int db, const char *b) {
    REAL(renameat);
    char b1[4096], b2[4096];
    struct fsshim_call c = {K_RENAME, da, db, 0, NULL, NULL, NULL, -1, 0};
    if (active()) { c.path = resolve(da, a, b1, sizeof b1); c.path2 = resolve(db, b, b2, sizeof b2); }
    GUARD_INT(real_renameat(da, a, db, b), c);
}
int renameat2(int da, const char *a, int db, const char *b, unsigned int fl) {
    static int (*real_renameat2)(int, const char *, int, const char *, unsigned int);
    if (!real_renameat2) real_renameat2 = dlsym(RTLD_NEXT, "renameat2");
    char b1[4096], b2[4096];
    struct fsshim_call c = {K_RENAME, da, db, (int)fl, NULL, NULL, NULL, -1, 0};
    if (active()) { c.path = resolve(da, a, b1, sizeof b1); c.path2 = resolve(db, b, b2, sizeof b2); }
    GUARD_INT(real_renameat2(da, a, db, b, fl), c);
}
int unlink(const char *p) { REAL(unlink); struct fsshim_call c = {K_UNLINK, -1, -1, 0, p, NULL, NULL, -1, 0}; GUARD_INT(real_unlink(p), c); }
int unlinkat(int d, const char *p, int fl) {
    REAL(unlinkat);
    char b1[4096];
    struct fsshim_call c = {(fl & AT_REMOVEDIR) ? K_RMDIR : K_UNLINK, d, -1, fl, NULL, NULL, NULL, -1, 0};
    if (active()) c.path = resolve(d, p, b1, sizeof b1);
    GUARD_INT(real_unlinkat(d, p, fl), c);
}
int rmdir(const char *p) { REAL(rmdir); struct fsshim_call c = {K_RMDIR, -1, -1, 0, p, NULL, NULL, -1, 0}; GUARD_INT(real_rmdir(p), c); }
int mkdir(const char *p, mode_t m) { REAL(mkdir); struct fsshim_call c = {K_MKDIR, -1, -1, 0, p, NULL, NULL, -1, (long long)m}; GUARD_INT(real_mkdir(p, m), c); }
int mkdirat(int d, const char *p, mode_t m) {
    REAL(mkdirat);
    char b1[4096];
    struct fsshim_call c = {K_MKDIR, d, -1, 0, NULL, NULL, NULL, -1, (long long)m};
    if (active()) c.path = resolve(d, p, b1, sizeof b1);
    GUARD_INT(real_mkdirat(d, p, m), c);
}
int link(const char *a, const char *b) { REAL(link); struct fsshim_call c = {K_LINK, -1, -1, 0, a, b, NULL, -1, 0}; GUARD_INT(real_link(a, b), c); }
int linkat(int da, const char *a, int db, const char *b, int fl) {
    REAL(linkat);
    char b1[4096], b2[4096];
    struct fsshim_call c = {K_LINK, da, db, fl, NULL, NULL, NULL, -1, 0};
    if (active()) { c.path = resolve(da, a, b1, sizeof b1); c.path2 = resolve(db, b, b2, sizeof b2); }
    GUARD_INT(real_linkat(da, a, db, b, fl), c);
}
int symlink(const char *a, const char *b) { REAL(symlink); struct fsshim_call c = {K_SYMLINK, -1, -1, 0, a, b, NULL, -1, 0}; GUARD_INT(real_symlink(a, b), c); }
int flock(int fd, int op) {
    static int (*real_flock)(int, int);
    if (!real_flock) real_flock = dlsym(RTLD_NEXT, "flock");
    struct fsshim_call c = {K_FLOCK, fd, -1, op, NULL, NULL, NULL, -1, 0};
    GUARD_INT(real_flock(fd, op), c);
}
int close(int fd) {
    REAL(close);
    struct fsshim_call c = {K_CLOSE, fd, -1, 0, NULL, NULL, NULL, -1, 0};
    GUARD_INT(real_close(fd), c);
}

/* ---- observations (only used as scheduling points) ---- */
int statx(int dirfd, const char *restrict path, int flags, unsigned int mask, struct statx *restrict st) {
    static int (*real_statx)(int, const char *, int, unsigned int, struct statx *);
    if (!real_statx) real_statx = dlsym(RTLD_NEXT, "statx");
    if (!real_statx) { errno = ENOSYS; return -1; }
    char b1[4096];
    struct fsshim_call c = {K_STAT, dirfd, -1, flags, NULL, NULL, NULL, -1, 0};
    if (active()) c.path = resolve(dirfd, path, b1, sizeof b1);
    GUARD_INT(real_statx(dirfd, path, flags, mask, st), c);
}
